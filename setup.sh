#!/bin/sh
# Builds (warms the build cache for) everything the checks need, offline, from files on disk only.
set -e
cd "$(dirname "$0")"
export GOFLAGS=-mod=mod GOPROXY=off GOSUMDB=off GOTOOLCHAIN=local
mkdir -p work evidence replays
cat /repo/go.sum harness/go.sum.harness > harness/go.sum
(cd /repo && go build -race -o /dev/null ./agent && go build -race -o /dev/null ./server && go build -race -o /dev/null ./app \
  && go build -race -o /dev/null ./utils/tcpbridge/tcp-bridge-frontend && go build -race -o /dev/null ./utils/tcpbridge/tcp-bridge-backend)
git -C /repo checkout -- go.sum go.mod 2>/dev/null || true
(cd harness && go vet ./... >/dev/null 2>&1 || true; go test -race -count=1 -run '^$' ./... >/dev/null)
echo setup ok
