#!/bin/bash
# Development aid: runs the quick check of every seeded change (seeded/<name>/patch.diff) against scratch worktrees of
# /repo, N at a time, using the driver's development mode (VERIF_REPO / VERIF_OUT). /repo's working tree, /verif/evidence
# and /verif/replays are not touched. Failing cases are kept under work/seedreplays/ as candidate regression replays.
#
# usage: [CHK=<check id>] tools_regress.sh [-j N] [-s seed] [name ...]      (default: all of seeded/*; CHK runs another check than the change's own)
cd /verif || exit 2
N=4; SEED=1
while getopts "j:s:" o; do case $o in j) N=$OPTARG;; s) SEED=$OPTARG;; esac; done
shift $((OPTIND-1))
names=("$@"); [ ${#names[@]} -eq 0 ] && names=($(ls seeded))
export GOFLAGS=-mod=mod GOPROXY=off GOSUMDB=off GOTOOLCHAIN=local
base=/tmp/verif-par.$$
mkdir -p $base work/seedreplays
worker() {
  k=$1; shift
  wt=$base/w$k/repo
  git -C /repo worktree add --detach -f $wt HEAD >/dev/null 2>&1 || { echo "worker $k: cannot create worktree"; return; }
  for name in "$@"; do
    p=/verif/seeded/$name/patch.diff
    chk=${CHK:-$(python3 -c "import json;print(json.load(open('/verif/seeded/$name/meta.json'))['property'][:3])")}
    out=$base/w$k/out; rm -rf $out
    if ! git -C $wt apply $p 2>/dev/null; then echo "$name -> PATCH DOES NOT APPLY"; continue; fi
    r=$(VERIF_SEED=$SEED VERIF_REPO=$wt VERIF_OUT=$out ./check $chk 2>&1 | grep -E "^\[check\] (OK|violation|INCONCLUSIVE)|build of" | head -1 | cut -c1-220)
    for f in $out/replays/$chk/*.json; do [ -f "$f" ] && cp $f work/seedreplays/$name--$chk--s$SEED.json; done
    git -C $wt checkout -- . ; git -C $wt clean -fdq
    echo "$name -> $r"
  done
  git -C /repo worktree remove --force $wt >/dev/null 2>&1
}
for ((k=0;k<N;k++)); do
  mine=()
  for ((i=k;i<${#names[@]};i+=N)); do mine+=("${names[$i]}"); done
  [ ${#mine[@]} -gt 0 ] && worker $k "${mine[@]}" &
done
wait
git -C /repo worktree prune
rm -rf $base
echo finished
