#!/bin/sh
# usage: tools_seed.sh <property> [<patch file>] [check ids...]
# Applies a seeded change to /repo, runs the quick check(s), reverts. Evidence files and replays are restored.
id=$1; patch=${2:-/verif/seeded/$id/patch.diff}; shift; shift
checks=${@:-$id}
cd /repo || exit 2
if ! git diff --quiet; then echo "repo dirty"; exit 2; fi
git apply "$patch" || { echo "PATCH DOES NOT APPLY"; exit 2; }
export GOFLAGS=-mod=mod GOPROXY=off GOSUMDB=off GOTOOLCHAIN=local
(go build ./... 2>&1 | head -5)
cd /verif
for c in $checks; do
  cp evidence/$c.json /tmp/.seed_ev_$c.json 2>/dev/null
  ls replays/$c 2>/dev/null | sort > /tmp/.seed_before_$c
  echo "== check $c against seeded change for $id"
  ./check $c 2>&1 | grep -E "^\[check\] (OK|violation|INCONCLUSIVE)|^VIOLATION|KNOWN" | cut -c1-400 | head -6
  cp /tmp/.seed_ev_$c.json evidence/$c.json 2>/dev/null
  mkdir -p work/seedreplays
  for f in $(ls replays/$c 2>/dev/null | sort | comm -13 /tmp/.seed_before_$c -); do cp replays/$c/$f work/seedreplays/$id--$c--$f; rm -f replays/$c/$f; done; rmdir replays/$c 2>/dev/null
done
git -C /repo checkout -- .
git -C /repo status --short
