// Package c07 checks property C07: one failing request never takes down the agent or other requests.
package c07

import (
	"bytes"
	"crypto/sha1"
	"encoding/base64"
	"encoding/json"
	"fmt"
	"io"
	"net"
	"net/http"
	"strings"
	"sync"
	"testing"
	"time"

	"pgregory.net/rapid"
	"verif/harness/vh"
)

const rule = "streams of 10-60 healthy concurrent requests (GET/POST, bodies up to 64 KiB) with 1-4 faults inserted at generated positions; " +
	"fault kinds x injection points: pending list (5xx, garbage JSON, truncated reply, dropped connection, non-HTTP reply), request fetch (connection dropped on every attempt / on the first only, non-HTTP reply, reset mid-body, 404, 5xx x1-3, truncated or garbled " +
	"wire request, missing start-time header, unparsable start time), backend (accept-then-close before/after reading, garbage status line, " +
	"headers without end, bad chunk size, short Content-Length, reset mid-body, 2 MiB header, 1xx flood), upload (5xx x1-3, connection reset), " +
	"shim endpoints (malformed JSON, wrong JSON types, unknown IDs, 1 MiB bodies on open/data/poll/close, a real session fed messages of odd shapes, and shim opens whose backend drops the handshake, answers garbage, half an answer or 403, or is unreachable; uploads of streamed responses turned down with 404/400 right after the headers, once or 70 times in a row), plus a second agent whose backend " +
	"port is closed (502 expected); agent binary runs with shim and session tracking on; invariant over the history: agent alive, no " +
	"race/fatal/panic, every healthy request uploaded once with its own content; non-trivial = a fault overlapping a healthy request in " +
	"time (measured); distinct = SHA-256 of the canonical case"

var (
	rec     = vh.NewRecorder("C07", "fault-stream", rule)
	recGrid = vh.NewRecorder("C07", "fault-grid", "every fault kind of the table once at each of three positions (first, middle, last) of a stream of 12 healthy requests (exhaustive over kind x position)")
)

func TestMain(m *testing.M) { vh.Main(m, rec, recGrid) }

var faultKinds = []string{
	"list-5xx", "list-garbage", "list-truncated", "list-drop", "list-not-http",
	"fetch-drop", "fetch-drop-1", "fetch-not-http", "fetch-reset-mid-body",
	"fetch-404", "fetch-5xx-1", "fetch-5xx-2", "fetch-5xx-3", "fetch-truncated", "fetch-garbled", "fetch-no-start-time", "fetch-bad-start-time",
	"backend-close-before-read", "backend-close-after-read", "backend-garbage-status", "backend-endless-header", "backend-bad-chunk",
	"backend-short-length", "backend-reset-mid-body", "backend-huge-header", "backend-1xx-flood",
	"backend-status-099", "backend-status-000", "backend-status-999", "backend-conflicting-lengths",
	"upload-5xx-1", "upload-5xx-3", "upload-reset", "upload-404-early", "upload-400-early", "upload-404-early-x70",
	"shim-open-garbage", "shim-data-malformed", "shim-data-wrong-type", "shim-data-unknown-id", "shim-poll-unknown-id", "shim-poll-malformed",
	"shim-close-unknown-id", "shim-close-wrong-type", "shim-data-huge", "shim-open-unreachable-path", "shim-session-odd-messages",
	"shim-open-backend-drops", "shim-open-backend-garbage", "shim-open-backend-403", "shim-open-backend-half-answer", "shim-open-backend-unreachable",
	"unreachable-backend",
}

type Op struct {
	Fault    string `json:"fault,omitempty"` // empty: healthy request
	Method   string `json:"method,omitempty"`
	ReqSize  int    `json:"req_size,omitempty"`
	RespSize int    `json:"resp_size,omitempty"`
	GapMs    int    `json:"gap_ms"`
	DelayMs  int    `json:"backend_ms,omitempty"`
}

type Case struct {
	Ops []Op `json:"ops"`
}

func genHealthy(t *rapid.T) Op {
	op := Op{Method: rapid.SampledFrom([]string{"GET", "POST"}).Draw(t, "method"),
		RespSize: rapid.SampledFrom([]int{0, 10, 4096, 65536}).Draw(t, "resp"),
		GapMs:    rapid.SampledFrom([]int{0, 0, 0, 1, 5}).Draw(t, "gap"),
		DelayMs:  rapid.SampledFrom([]int{0, 0, 5, 30}).Draw(t, "delay")}
	if op.Method == "POST" {
		op.ReqSize = rapid.SampledFrom([]int{0, 10, 4096, 65536}).Draw(t, "req")
	}
	return op
}

func genCase(t *rapid.T) Case {
	var c Case
	n := rapid.IntRange(10, 60).Draw(t, "n")
	for i := 0; i < n; i++ {
		c.Ops = append(c.Ops, genHealthy(t))
	}
	nf := rapid.IntRange(1, 4).Draw(t, "nfaults")
	for i := 0; i < nf; i++ {
		pos := rapid.IntRange(0, len(c.Ops)).Draw(t, "pos")
		f := Op{Fault: rapid.SampledFrom(faultKinds).Draw(t, "fault"), GapMs: rapid.SampledFrom([]int{0, 0, 1, 5}).Draw(t, "fgap")}
		c.Ops = append(c.Ops[:pos], append([]Op{f}, c.Ops[pos:]...)...)
	}
	return c
}

type rig struct {
	fp      *vh.FakeProxy
	meta    *vh.FakeMeta
	agent   *vh.Proc
	backend *vh.RawBackend

	// second agent whose backend port is closed
	fp2    *vh.FakeProxy
	agent2 *vh.Proc

	mu         sync.Mutex
	scripts    map[string]func(rq *vh.RawRequest, c net.Conn) bool
	listFaults []string
	fetchFault map[string]string
	fetchCount map[string]int
	upFault    map[string]string
	upCount    map[string]int
	ctr        int
}

var (
	rigMu  sync.Mutex
	theRig *rig
)

func getRig(t vh.TB) *rig {
	rigMu.Lock()
	defer rigMu.Unlock()
	if theRig != nil {
		return theRig
	}
	r := &rig{scripts: map[string]func(*vh.RawRequest, net.Conn) bool{}, fetchFault: map[string]string{}, fetchCount: map[string]int{},
		upFault: map[string]string{}, upCount: map[string]int{}}
	r.backend = vh.NewRawBackend(func(rq *vh.RawRequest, c net.Conn) bool {
		tok := ""
		if v := rq.Values(vh.TokenHeader); len(v) > 0 {
			tok = v[0]
		}
		r.mu.Lock()
		s := r.scripts[tok]
		r.mu.Unlock()
		if s != nil {
			return s(rq, c)
		}
		switch {
		case strings.HasPrefix(rq.Target, "/wsdrop/"): // the handshake is closed unanswered
			return false
		case strings.HasPrefix(rq.Target, "/wsgarbage/"):
			c.Write([]byte("\x16\x03\x01\x02\x00 certainly not HTTP\r\n\r\n"))
			return false
		case strings.HasPrefix(rq.Target, "/ws403/"):
			c.Write([]byte("HTTP/1.1 403 Forbidden\r\nContent-Length: 6\r\n\r\ndenied"))
			return true
		case strings.HasPrefix(rq.Target, "/wshalf/"): // the answer breaks off inside the header section
			c.Write([]byte("HTTP/1.1 101 Switching Protocols\r\nUpgrade: websocket\r\nConnec"))
			return false
		}
		if key := rq.Values("Sec-WebSocket-Key"); len(key) > 0 && strings.HasPrefix(rq.Target, "/ws/") {
			// a websocket handshake of a shim session: accept it and hold the connection
			h := sha1.Sum([]byte(key[0] + "258EAFA5-E914-47DA-95CA-C5AB0DC85B11"))
			fmt.Fprintf(c, "HTTP/1.1 101 Switching Protocols\r\nUpgrade: websocket\r\nConnection: Upgrade\r\nSec-WebSocket-Accept: %s\r\n\r\n", base64.StdEncoding.EncodeToString(h[:]))
			c.SetReadDeadline(time.Now().Add(20 * time.Second))
			io.Copy(io.Discard, c)
			return false
		}
		c.Write([]byte("HTTP/1.1 200 OK\r\nContent-Length: 2\r\n\r\nok"))
		return true
	})
	r.meta = vh.NewFakeMeta()
	mk := func(backendAddr string) (*vh.FakeProxy, *vh.Proc) {
		fp := vh.NewFakeProxy()
		fp.IdleReply = 50 * time.Millisecond
		agent, err := vh.StartAgent(r.meta, fp.URL, backendAddr, []string{"--shim-websockets", "--shim-path=shim",
			"--session-cookie-name=agentsession", "--disable-ssl-for-test"})
		if err != nil {
			t.Fatalf("INFRA: cannot start agent: %v", err)
		}
		return fp, agent
	}
	r.fp, r.agent = mk(r.backend.Addr)
	r.fp.SetListHook(func(w http.ResponseWriter, rq *http.Request) bool {
		r.mu.Lock()
		if len(r.listFaults) == 0 {
			r.mu.Unlock()
			return false
		}
		f := r.listFaults[0]
		r.listFaults = r.listFaults[1:]
		r.mu.Unlock()
		switch f {
		case "list-5xx":
			w.WriteHeader(500)
		case "list-garbage":
			w.Write([]byte(`{"not":"a list"`))
		case "list-truncated":
			w.Header().Set("Content-Length", "50")
			w.Write([]byte(`["abc`))
			panic(http.ErrAbortHandler)
		case "list-drop":
			hijackAnd(w, nil, false)
		case "list-not-http":
			hijackAnd(w, []byte("\x00\x01\x02 definitely not HTTP\r\n\r\n"), false)
		}
		return true
	})
	r.fp.SetFetchHook(func(q *vh.FPRequest, w http.ResponseWriter, rq *http.Request) bool {
		r.mu.Lock()
		f := r.fetchFault[q.ID]
		r.fetchCount[q.ID]++
		n := r.fetchCount[q.ID]
		r.mu.Unlock()
		now := time.Now().Format(time.RFC3339Nano)
		switch f {
		case "":
			return false
		case "fetch-drop": // every attempt: the connection is closed without any response
			hijackAnd(w, nil, false)
		case "fetch-drop-1": // the first attempt only; the retry is served
			if n > 1 {
				return false
			}
			hijackAnd(w, nil, false)
		case "fetch-not-http":
			hijackAnd(w, []byte("SSH-2.0-OpenSSH_9.0\r\n"), false)
		case "fetch-reset-mid-body":
			hijackAnd(w, []byte("HTTP/1.1 200 OK\r\n"+vh.HdrStartTime+": "+now+"\r\nContent-Length: 5000\r\n\r\nGET /half"), true)
		case "fetch-404":
			http.NotFound(w, rq)
		case "fetch-5xx-1", "fetch-5xx-2", "fetch-5xx-3":
			k := int(f[len(f)-1] - '0')
			if n > k {
				return false
			}
			w.WriteHeader(503)
		case "fetch-truncated":
			w.Header().Set(vh.HdrStartTime, now)
			w.Write(q.Wire[:len(q.Wire)/2])
		case "fetch-garbled":
			w.Header().Set(vh.HdrStartTime, now)
			w.Write([]byte("\x00\x01NOT HTTP AT ALL\r\n\r\n"))
		case "fetch-no-start-time":
			w.Write(q.Wire)
		case "fetch-bad-start-time":
			w.Header().Set(vh.HdrStartTime, "yesterday at noon")
			w.Write(q.Wire)
		}
		return true
	})
	r.fp.SetUploadHook(func(q *vh.FPRequest, w http.ResponseWriter, rq *http.Request) bool {
		r.mu.Lock()
		f := r.upFault[q.ID]
		r.upCount[q.ID]++
		n := r.upCount[q.ID]
		r.mu.Unlock()
		switch f {
		case "":
			return false
		case "upload-5xx-1", "upload-5xx-3":
			k := int(f[len(f)-1] - '0')
			if n > k {
				return false
			}
			w.WriteHeader(502)
		case "upload-404-early", "upload-400-early":
			// turned down right after the request headers, without reading the body
			w.Header().Set("Connection", "close")
			if f == "upload-400-early" {
				w.WriteHeader(400)
			} else {
				w.WriteHeader(404)
			}
		case "upload-reset":
			if hj, ok := w.(http.Hijacker); ok {
				if c, _, err := hj.Hijack(); err == nil {
					if tc, ok := c.(*net.TCPConn); ok {
						tc.SetLinger(0)
					}
					c.Close()
				}
			}
		}
		return true
	})
	// a backend address that refuses connections for good: port 1 (a free port picked now could be taken by another
	// process later, and that process would answer in the backend's place)
	r.fp2, r.agent2 = mk("127.0.0.1:1")
	// warm-up of the first agent
	q := r.fp.Submit("warmup", "", "GET", []byte("GET /warmup HTTP/1.1\r\nHost: x\r\n\r\n"))
	if q.Wait(30*time.Second) == nil {
		t.Fatalf("INFRA: agent did not come up: %s", r.agent.Tail(10))
	}
	q2 := r.fp2.Submit("warmup", "", "GET", []byte("GET /warmup HTTP/1.1\r\nHost: x\r\n\r\n"))
	if q2.Wait(30*time.Second) == nil {
		t.Fatalf("INFRA: second agent did not come up: %s", r.agent2.Tail(10))
	}
	theRig = r
	return r
}

func closeRig() {
	rigMu.Lock()
	defer rigMu.Unlock()
	if theRig != nil {
		theRig.agent.Stop()
		theRig.agent2.Stop()
		theRig.fp.Close()
		theRig.fp2.Close()
		theRig.meta.Close()
		theRig.backend.Close()
		theRig = nil
	}
}

// hijackAnd takes the connection away from the HTTP server, optionally writes raw bytes, and closes (or resets) it.
func hijackAnd(w http.ResponseWriter, raw []byte, reset bool) {
	hj, ok := w.(http.Hijacker)
	if !ok {
		if u, ok := w.(interface{ Unwrap() http.ResponseWriter }); ok {
			hj, _ = u.Unwrap().(http.Hijacker)
		}
	}
	if hj == nil {
		panic(http.ErrAbortHandler)
	}
	c, _, err := hj.Hijack()
	if err != nil {
		return
	}
	if raw != nil {
		c.Write(raw)
	}
	if tc, ok := c.(*net.TCPConn); ok && reset {
		tc.SetLinger(0)
	}
	c.Close()
}

type span struct{ start, end time.Time }

func (r *rig) health() error {
	for _, p := range []*vh.Proc{r.agent, r.agent2} {
		if !p.Alive() {
			return fmt.Errorf("the agent terminated: %v\n%s", p.ExitErr(), p.Tail(12))
		}
		if fl := p.Flags(); len(fl) > 0 {
			return fmt.Errorf("the agent reported: %s", fl[0])
		}
	}
	return nil
}

// runFault plays one fault; it never asserts anything about the faulty request itself,
// except for the 502 of an unreachable backend.
func (r *rig) runFault(kind, tok string) error {
	id := "id-" + tok
	wire := fmt.Sprintf("GET /faulty/%s HTTP/1.1\r\nHost: c07.example\r\n%s: %s\r\n\r\n", tok, vh.TokenHeader, tok)
	post := func(path, body string) string {
		return fmt.Sprintf("POST /shim/%s HTTP/1.1\r\nHost: c07.example\r\n%s: %s\r\nX-Websocket-Shim-Version: 1\r\nContent-Length: %d\r\n\r\n%s", path, vh.TokenHeader, tok, len(body), body)
	}
	defer func() {
		r.fp.Forget(id)
		r.mu.Lock()
		delete(r.scripts, tok)
		delete(r.fetchFault, id)
		delete(r.upFault, id)
		r.mu.Unlock()
	}()
	wait := 3 * time.Second
	switch {
	case strings.HasPrefix(kind, "list-"):
		r.mu.Lock()
		r.listFaults = append(r.listFaults, kind)
		r.mu.Unlock()
		r.fp.List() // make sure a poll comes by
		time.Sleep(20 * time.Millisecond)
		return nil
	case strings.HasPrefix(kind, "fetch-"):
		r.mu.Lock()
		r.fetchFault[id] = kind
		r.mu.Unlock()
		wait = 1 * time.Second
	case kind == "upload-404-early-x70":
		// many requests over the life of the agent whose (streamed) responses the proxy turns down early
		for k := 0; k < 70; k++ {
			stok := fmt.Sprintf("%s-x%d", tok, k)
			sid := "id-" + stok
			r.mu.Lock()
			r.upFault[sid] = "upload-404-early"
			r.scripts[stok] = streamedResponse
			r.mu.Unlock()
			q := r.fp.Submit(sid, "", "GET", []byte(fmt.Sprintf("GET /faulty/%s HTTP/1.1\r\nHost: c07.example\r\n%s: %s\r\n\r\n", stok, vh.TokenHeader, stok)))
			q.Wait(60 * time.Millisecond)
			r.fp.Forget(sid)
			r.mu.Lock()
			delete(r.scripts, stok)
			delete(r.upFault, sid)
			r.mu.Unlock()
		}
		return nil
	case strings.HasPrefix(kind, "upload-"):
		r.mu.Lock()
		r.upFault[id] = kind
		if strings.HasSuffix(kind, "-early") {
			r.scripts[tok] = streamedResponse
		}
		r.mu.Unlock()
		wait = 1 * time.Second
	case strings.HasPrefix(kind, "backend-"):
		r.mu.Lock()
		r.scripts[tok] = backendFault(kind)
		r.mu.Unlock()
	case kind == "unreachable-backend":
		q := r.fp2.Submit(id, "", "GET", []byte(wire))
		defer r.fp2.Forget(id)
		up := q.Wait(20 * time.Second)
		if up == nil {
			return fmt.Errorf("backend unreachable: no response was uploaded for the request within 20s (a 502 is required)")
		}
		if up.Resp == nil || up.Resp.StatusCode != 502 {
			code := 0
			if up.Resp != nil {
				code = up.Resp.StatusCode
			}
			return fmt.Errorf("backend unreachable: the client received status %d instead of 502", code)
		}
		return nil
	case kind == "shim-session-odd-messages":
		// a real shim session, then data posts whose messages have odd shapes, then close
		open := r.fp.Submit(id+"-open", "", "POST", []byte(post("open", "ws://c07.example/ws/"+tok)))
		defer r.fp.Forget(id + "-open")
		up := open.Wait(5 * time.Second)
		sid := ""
		if up != nil && up.Resp != nil && up.Resp.StatusCode == 200 {
			var sm struct {
				ID string `json:"id"`
			}
			json.Unmarshal(up.Body, &sm)
			sid = sm.ID
		}
		if sid == "" {
			return nil
		}
		for k, msg := range []string{`[]`, `[42]`, `["YQ==","Yg=="]`, `null`, `{"a":[1]}`, `[[]]`, `[""]`, `"plain"`, `["%%%"]`} {
			sub := fmt.Sprintf("%s-d%d", id, k)
			q := r.fp.Submit(sub, "", "POST", []byte(post("data", `[{"id":"`+sid+`","msg":`+msg+`}]`)))
			q.Wait(3 * time.Second)
			r.fp.Forget(sub)
		}
		cq := r.fp.Submit(id+"-close", "", "POST", []byte(post("close", `{"id":"`+sid+`"}`)))
		cq.Wait(3 * time.Second)
		r.fp.Forget(id + "-close")
		return nil
	case kind == "shim-open-backend-drops":
		wire = post("open", "ws://c07.example/wsdrop/"+tok)
	case kind == "shim-open-backend-garbage":
		wire = post("open", "ws://c07.example/wsgarbage/"+tok)
	case kind == "shim-open-backend-403":
		wire = post("open", "ws://c07.example/ws403/"+tok)
	case kind == "shim-open-backend-half-answer":
		wire = post("open", "ws://c07.example/wshalf/"+tok)
	case kind == "shim-open-backend-unreachable":
		// through the second agent, whose backend port is closed: the websocket dial is refused
		q := r.fp2.Submit(id, "", "POST", []byte(post("open", "ws://c07.example/ws/"+tok)))
		defer r.fp2.Forget(id)
		if up := q.Wait(20 * time.Second); up == nil {
			if !r.agent2.Alive() {
				return fmt.Errorf("shim open with an unreachable backend: the agent is gone: %s", r.agent2.Tail(6))
			}
			return fmt.Errorf("shim open with an unreachable backend: no answer was uploaded within 20s and the agent is still running")
		}
		return nil
	case kind == "shim-open-garbage":
		wire = post("open", "://\x7f not a url at all %zz")
	case kind == "shim-open-unreachable-path":
		// the backend answers the websocket handshake with a plain 200: the dial fails
		wire = post("open", "ws://c07.example/not-a-websocket")
	case kind == "shim-data-malformed":
		wire = post("data", `[{"id":"1","msg":`)
	case kind == "shim-data-wrong-type":
		wire = post("data", `{"id":7,"msg":{"a":[1,2,3]}}`)
	case kind == "shim-data-unknown-id":
		wire = post("data", `[{"id":"999999","msg":"hello"},{"id":"","msg":["!!!not base64"]}]`)
	case kind == "shim-data-huge":
		wire = post("data", `[{"id":"424242","msg":"`+strings.Repeat("x", 1<<20)+`"}]`)
	case kind == "shim-poll-unknown-id":
		wire = post("poll", `{"id":"31337"}`)
	case kind == "shim-poll-malformed":
		wire = post("poll", `{"id":`)
	case kind == "shim-close-unknown-id":
		wire = post("close", `{"id":"does-not-exist"}`)
	case kind == "shim-close-wrong-type":
		wire = post("close", `[1,2,3]`)
	}
	method := "GET"
	if strings.HasPrefix(wire, "POST") {
		method = "POST"
	}
	q := r.fp.Submit(id, "", method, []byte(wire))
	q.Wait(wait)
	return nil
}

// streamedResponse: 128 KiB in chunks, so that body bytes are still outstanding when the upload is turned down.
func streamedResponse(rq *vh.RawRequest, c net.Conn) bool {
	c.Write([]byte("HTTP/1.1 200 OK\r\nContent-Type: application/octet-stream\r\nTransfer-Encoding: chunked\r\n\r\n"))
	chunk := bytes.Repeat([]byte("s"), 32768)
	c.SetWriteDeadline(time.Now().Add(10 * time.Second))
	for k := 0; k < 4; k++ {
		fmt.Fprintf(c, "%x\r\n", len(chunk))
		if _, err := c.Write(chunk); err != nil {
			return false
		}
		c.Write([]byte("\r\n"))
	}
	c.Write([]byte("0\r\n\r\n"))
	return true
}

func backendFault(kind string) func(rq *vh.RawRequest, c net.Conn) bool {
	return func(rq *vh.RawRequest, c net.Conn) bool {
		switch kind {
		case "backend-close-before-read", "backend-close-after-read":
			return false
		case "backend-garbage-status":
			c.Write([]byte("\x16\x03\x01 this is not HTTP\r\n\r\n"))
			return false
		case "backend-endless-header":
			c.Write([]byte("HTTP/1.1 200 OK\r\nX-Never-Ends: a"))
			time.Sleep(30 * time.Millisecond)
			return false
		case "backend-bad-chunk":
			c.Write([]byte("HTTP/1.1 200 OK\r\nTransfer-Encoding: chunked\r\n\r\n5\r\nhello\r\nZZZ\r\nworld\r\n0\r\n\r\n"))
			return false
		case "backend-short-length":
			c.Write([]byte("HTTP/1.1 200 OK\r\nContent-Length: 1000\r\n\r\nonly this"))
			return false
		case "backend-reset-mid-body":
			c.Write([]byte("HTTP/1.1 200 OK\r\nContent-Length: 100000\r\n\r\n" + strings.Repeat("a", 5000)))
			time.Sleep(10 * time.Millisecond)
			if tc, ok := c.(*net.TCPConn); ok {
				tc.SetLinger(0)
			}
			return false
		case "backend-huge-header":
			c.Write([]byte("HTTP/1.1 200 OK\r\nX-Huge: " + strings.Repeat("h", 2<<20) + "\r\nContent-Length: 2\r\n\r\nok"))
			return false
		case "backend-status-099", "backend-status-000", "backend-status-999":
			// three-digit status codes outside 100..599: Go's client accepts the status line
			c.Write([]byte("HTTP/1.1 " + strings.TrimPrefix(kind, "backend-status-") + " Odd\r\nContent-Length: 2\r\n\r\nok"))
			return true
		case "backend-conflicting-lengths":
			c.Write([]byte("HTTP/1.1 200 OK\r\nContent-Length: 2\r\nContent-Length: 5\r\n\r\nok"))
			return false
		case "backend-1xx-flood":
			for i := 0; i < 20; i++ {
				c.Write([]byte("HTTP/1.1 103 Early Hints\r\nLink: </x>; rel=preload\r\n\r\n"))
			}
			c.Write([]byte("HTTP/1.1 200 OK\r\nContent-Length: 2\r\n\r\nok"))
			return true
		}
		return false
	}
}

func runCase(t vh.TB, c *Case) vh.Outcome {
	r := getRig(t)
	o := vh.Outcome{}
	r.mu.Lock()
	r.ctr++
	run := r.ctr
	r.mu.Unlock()
	type hres struct {
		span
		err error
	}
	results := make([]hres, len(c.Ops))
	var faultSpans []span
	var fmu sync.Mutex
	var wg sync.WaitGroup
	for i := range c.Ops {
		i := i
		op := c.Ops[i]
		if op.GapMs > 0 {
			time.Sleep(time.Duration(op.GapMs) * time.Millisecond)
		}
		tok := fmt.Sprintf("c07-%d-%d", run, i)
		wg.Add(1)
		go func() {
			defer wg.Done()
			start := time.Now()
			if op.Fault != "" {
				err := r.runFault(op.Fault, tok)
				fmu.Lock()
				faultSpans = append(faultSpans, span{start, time.Now()})
				fmu.Unlock()
				results[i] = hres{span{start, time.Now()}, err}
				return
			}
			results[i] = hres{span{start, time.Time{}}, r.runHealthy(op, tok)}
			results[i].end = time.Now()
		}()
	}
	wg.Wait()
	for _, op := range c.Ops {
		if op.Fault != "" {
			o.Classes = append(o.Classes, op.Fault)
		}
	}
	if err := r.health(); err != nil {
		o.Err = fmt.Errorf("%v (faults in this stream: %v)", err, faultsOf(c))
		closeRig()
		return o
	}
	for i, res := range results {
		if res.err != nil {
			if c.Ops[i].Fault != "" {
				o.Err = res.err
			} else {
				o.Err = fmt.Errorf("healthy request %d of %d was disturbed (faults in this stream: %v): %v", i, len(c.Ops), faultsOf(c), res.err)
				o.TimedOut = strings.Contains(res.err.Error(), "within")
			}
			return o
		}
		if c.Ops[i].Fault == "" {
			for _, fs := range faultSpans {
				if res.start.Before(fs.end) && fs.start.Before(res.end) {
					o.NonTrivial = true
				}
			}
		}
	}
	// requests issued afterwards are served normally
	if err := r.runHealthy(Op{Method: "POST", ReqSize: 100, RespSize: 100}, fmt.Sprintf("c07-%d-after", run)); err != nil {
		o.Err = fmt.Errorf("a request issued after the faults (%v) was not served normally: %v", faultsOf(c), err)
		return o
	}
	if err := r.health(); err != nil {
		o.Err = err
		closeRig()
	}
	return o
}

func faultsOf(c *Case) []string {
	var fs []string
	for _, op := range c.Ops {
		if op.Fault != "" {
			fs = append(fs, op.Fault)
		}
	}
	return fs
}

func (r *rig) runHealthy(op Op, tok string) error {
	id := "id-" + tok
	reqBody := append([]byte(tok+"|"), vh.Payload("c07req"+tok, op.ReqSize)...)
	respBody := append([]byte(tok+"|"), vh.Payload("c07resp"+tok, op.RespSize)...)
	var got []byte
	var gmu sync.Mutex
	invocations := 0
	r.mu.Lock()
	r.scripts[tok] = func(rq *vh.RawRequest, c net.Conn) bool {
		gmu.Lock()
		got = rq.Body
		invocations++
		gmu.Unlock()
		if op.DelayMs > 0 {
			time.Sleep(time.Duration(op.DelayMs) * time.Millisecond)
		}
		fmt.Fprintf(c, "HTTP/1.1 200 OK\r\nX-Echo-Token: %s\r\nContent-Length: %d\r\n\r\n", tok, len(respBody))
		c.Write(respBody)
		return true
	}
	r.mu.Unlock()
	defer func() {
		r.mu.Lock()
		delete(r.scripts, tok)
		r.mu.Unlock()
		r.fp.Forget(id)
	}()
	var wire bytes.Buffer
	if op.Method == "POST" {
		fmt.Fprintf(&wire, "POST /healthy/%s HTTP/1.1\r\nHost: c07.example\r\n%s: %s\r\nContent-Length: %d\r\n\r\n", tok, vh.TokenHeader, tok, len(reqBody))
		wire.Write(reqBody)
	} else {
		fmt.Fprintf(&wire, "GET /healthy/%s HTTP/1.1\r\nHost: c07.example\r\n%s: %s\r\n\r\n", tok, vh.TokenHeader, tok)
	}
	q := r.fp.Submit(id, "", op.Method, wire.Bytes())
	up := q.Wait(30 * time.Second)
	if up == nil {
		return fmt.Errorf("no response uploaded within 30s (fetched %d times, backend invoked %d times)", q.FetchCount(), invocations)
	}
	if up.Resp == nil || up.Resp.StatusCode != 200 || up.Resp.Header.Get("X-Echo-Token") != tok || !bytes.Equal(up.Body, respBody) {
		code := 0
		if up.Resp != nil {
			code = up.Resp.StatusCode
		}
		return fmt.Errorf("uploaded response is not its own: status %d, %d body bytes (expected %d), parse error %v", code, len(up.Body), len(respBody), up.ParseErr)
	}
	gmu.Lock()
	defer gmu.Unlock()
	if op.Method == "POST" && !bytes.Equal(got, reqBody) {
		return fmt.Errorf("backend received a request body of %d bytes, expected %d", len(got), len(reqBody))
	}
	return nil
}

func TestPropFaultStream(t *testing.T) {
	defer closeRig()
	vh.Rapid(t, vh.Scale(80, 2000), func(rt *rapid.T) {
		c := genCase(rt)
		rec.Check(rt, &c, func() vh.Outcome { return vh.Confirm(func(int) vh.Outcome { return runCase(rt, &c) }) })
	})
}

// TestPropFaultGrid enumerates kind x position exhaustively.
func TestPropFaultGrid(t *testing.T) {
	defer closeRig()
	if vh.Shard() != 0 {
		t.Skip("the grid runs in shard 0 only")
	}
	healthy := func(i int) Op {
		return Op{Method: []string{"GET", "POST"}[i%2], ReqSize: []int{0, 10, 4096}[i%3], RespSize: []int{10, 4096, 65536}[i%3], DelayMs: []int{0, 5, 30}[i%3]}
	}
	for _, kind := range faultKinds {
		for _, pos := range []int{0, 6, 12} {
			var c Case
			for i := 0; i < 12; i++ {
				if i == pos {
					c.Ops = append(c.Ops, Op{Fault: kind})
				}
				c.Ops = append(c.Ops, healthy(i))
			}
			if pos == 12 {
				c.Ops = append(c.Ops, Op{Fault: kind})
			}
			recGrid.Check(t, &c, func() vh.Outcome {
				o := vh.Confirm(func(int) vh.Outcome { return runCase(t, &c) })
				o.NonTrivial = true
				return o
			})
		}
	}
	recGrid.SetExhaustive(true)
}

func TestReplay(t *testing.T) {
	defer closeRig()
	var c Case
	for _, part := range []string{"fault-stream", "fault-grid"} {
		ok, err := vh.ReplayCase(part, &c)
		if err != nil {
			t.Fatalf("INFRA: %v", err)
		}
		if ok {
			for i := 0; i < vh.ReplayRuns(); i++ {
				rec.Check(t, &c, func() vh.Outcome { return vh.Confirm(func(int) vh.Outcome { return runCase(t, &c) }) })
			}
			return
		}
	}
	t.Skip("no replay for this package")
}
