// Package fakeae is a wire-level fake of the App Engine API services that google/inverting-proxy's
// App Engine proxy uses: datastore_v3 (Put, Get, Delete, RunQuery, Next, BeginTransaction, Commit,
// Rollback), memcache (Get, Set, Delete) and user (GetOAuthUser).
//
// The generated protobuf types live in an internal package of google.golang.org/appengine/v2 and
// cannot be imported, so requests and responses are handled with protowire. Entities are stored as
// the raw EntityProto bytes they were written with.
package fakeae

import (
	"bytes"
	"context"
	"fmt"
	"io"
	"math"
	"net"
	"net/http"
	"sort"
	"strconv"
	"strings"
	"sync"
	"time"

	gproto "github.com/golang/protobuf/proto"
	"google.golang.org/protobuf/encoding/protowire"
)

// AppError is an application-level API error (remote_api.ApplicationError).
type AppError struct {
	Code   int32
	Detail string
}

func (e *AppError) Error() string { return fmt.Sprintf("API error %d: %s", e.Code, e.Detail) }

// CallInfo describes one API call for fault hooks and logs.
type CallInfo struct {
	Service, Method string
	Kinds           []string // kinds of the keys / entities / query involved
	Keys            []string // canonical key strings involved
	Request         []byte
	Ticket          string
	Seq             int
}

type entity struct {
	key   string
	kind  string
	name  string
	raw   []byte // EntityProto
	props map[string][]value
}

type value struct {
	kind byte // 'i' int64, 'b' bool, 's' string/bytes, 'd' double, 0 none
	i    int64
	s    string
	d    float64
}

type txn struct {
	deletes []string
	puts    []*entity
}

// Fake is the in-memory state of the fake services.
type Fake struct {
	mu       sync.Mutex
	entities map[string]*entity
	mem      map[string]memItem
	txns     map[uint64]*txn
	nextTxn  uint64
	seq      int
	calls    map[string]int

	// Hook is consulted before every call; a non-nil result is returned to the caller instead.
	Hook   func(ci *CallInfo) *AppError
	casCtr uint64
	// MemcacheLimit is the largest value memcache accepts (real limit: 1 MiB - 96 bytes).
	MemcacheLimit int

	ln  net.Listener
	srv *http.Server
}

type memItem struct {
	value   []byte
	flags   uint32
	expires time.Time // zero: never
	cas     uint64
}

// MemcacheAge makes every memcache entry look d older (entries with an expiry that has then passed disappear).
func (f *Fake) MemcacheAge(d time.Duration) {
	f.mu.Lock()
	defer f.mu.Unlock()
	for k, it := range f.mem {
		if !it.expires.IsZero() {
			it.expires = it.expires.Add(-d)
			f.mem[k] = it
		}
	}
}

// memLookup returns a live entry (expired ones are dropped).
func (f *Fake) memLookup(key string) (memItem, bool) {
	it, ok := f.mem[key]
	if ok && !it.expires.IsZero() && !time.Now().Before(it.expires) {
		delete(f.mem, key)
		return memItem{}, false
	}
	return it, ok
}

func memExpiry(secs uint64) time.Time {
	switch {
	case secs == 0:
		return time.Time{}
	case secs <= 30*24*3600:
		return time.Now().Add(time.Duration(secs) * time.Second)
	default:
		return time.Unix(int64(secs), 0)
	}
}

func New() *Fake {
	return &Fake{entities: map[string]*entity{}, mem: map[string]memItem{}, txns: map[uint64]*txn{}, nextTxn: 1,
		calls: map[string]int{}, MemcacheLimit: 1<<20 - 96}
}

// ---- protowire helpers

type field struct {
	num protowire.Number
	typ protowire.Type
	v   uint64 // varint / fixed
	b   []byte // bytes or group content
}

func parse(b []byte) ([]field, error) {
	var out []field
	for len(b) > 0 {
		num, typ, n := protowire.ConsumeTag(b)
		if n < 0 {
			return nil, protowire.ParseError(n)
		}
		b = b[n:]
		f := field{num: num, typ: typ}
		switch typ {
		case protowire.VarintType:
			v, n := protowire.ConsumeVarint(b)
			if n < 0 {
				return nil, protowire.ParseError(n)
			}
			f.v = v
			b = b[n:]
		case protowire.Fixed32Type:
			v, n := protowire.ConsumeFixed32(b)
			if n < 0 {
				return nil, protowire.ParseError(n)
			}
			f.v = uint64(v)
			b = b[n:]
		case protowire.Fixed64Type:
			v, n := protowire.ConsumeFixed64(b)
			if n < 0 {
				return nil, protowire.ParseError(n)
			}
			f.v = v
			b = b[n:]
		case protowire.BytesType:
			v, n := protowire.ConsumeBytes(b)
			if n < 0 {
				return nil, protowire.ParseError(n)
			}
			f.b = v
			b = b[n:]
		case protowire.StartGroupType:
			v, n := protowire.ConsumeGroup(num, b)
			if n < 0 {
				return nil, protowire.ParseError(n)
			}
			f.b = v
			b = b[n:]
		default:
			return nil, fmt.Errorf("unexpected wire type %d", typ)
		}
		out = append(out, f)
	}
	return out, nil
}

func appendBytes(b []byte, num protowire.Number, v []byte) []byte {
	b = protowire.AppendTag(b, num, protowire.BytesType)
	return protowire.AppendBytes(b, v)
}

func appendVarint(b []byte, num protowire.Number, v uint64) []byte {
	b = protowire.AppendTag(b, num, protowire.VarintType)
	return protowire.AppendVarint(b, v)
}

func appendGroup(b []byte, num protowire.Number, content []byte) []byte {
	b = protowire.AppendTag(b, num, protowire.StartGroupType)
	b = append(b, content...)
	return protowire.AppendTag(b, num, protowire.EndGroupType)
}

// keyOf returns the canonical string, kind and name of a Reference.
func keyOf(ref []byte) (key, kind, name string, err error) {
	fs, err := parse(ref)
	if err != nil {
		return "", "", "", err
	}
	var sb strings.Builder
	for _, f := range fs {
		if f.num != 14 { // path
			continue
		}
		pfs, err := parse(f.b)
		if err != nil {
			return "", "", "", err
		}
		for _, pe := range pfs {
			if pe.num != 1 {
				continue
			}
			efs, err := parse(pe.b)
			if err != nil {
				return "", "", "", err
			}
			var typ, nm string
			var id uint64
			for _, e := range efs {
				switch e.num {
				case 2:
					typ = string(e.b)
				case 3:
					id = e.v
				case 4:
					nm = string(e.b)
				}
			}
			fmt.Fprintf(&sb, "/%q,%q,%d", typ, nm, id)
			kind, name = typ, nm
		}
	}
	return sb.String(), kind, name, nil
}

func parseValue(pv []byte) value {
	fs, err := parse(pv)
	if err != nil {
		return value{}
	}
	for _, f := range fs {
		switch f.num {
		case 1:
			return value{kind: 'i', i: int64(f.v)}
		case 2:
			return value{kind: 'b', i: int64(f.v)}
		case 3:
			return value{kind: 's', s: string(f.b)}
		case 4:
			return value{kind: 'd', d: math.Float64frombits(f.v)}
		}
	}
	return value{}
}

func parseProperty(p []byte) (name string, v value) {
	fs, err := parse(p)
	if err != nil {
		return "", value{}
	}
	for _, f := range fs {
		switch f.num {
		case 3:
			name = string(f.b)
		case 5:
			v = parseValue(f.b)
		}
	}
	return
}

func parseEntity(raw []byte) (*entity, error) {
	fs, err := parse(raw)
	if err != nil {
		return nil, err
	}
	e := &entity{raw: append([]byte(nil), raw...), props: map[string][]value{}}
	for _, f := range fs {
		switch f.num {
		case 13:
			e.key, e.kind, e.name, err = keyOf(f.b)
			if err != nil {
				return nil, err
			}
		case 14: // indexed properties only take part in queries
			n, v := parseProperty(f.b)
			e.props[n] = append(e.props[n], v)
		}
	}
	if e.key == "" {
		return nil, fmt.Errorf("entity without key")
	}
	return e, nil
}

func cmp(a, b value) (int, bool) {
	if a.kind != b.kind {
		return 0, false
	}
	switch a.kind {
	case 'i', 'b':
		switch {
		case a.i < b.i:
			return -1, true
		case a.i > b.i:
			return 1, true
		}
		return 0, true
	case 's':
		return strings.Compare(a.s, b.s), true
	case 'd':
		switch {
		case a.d < b.d:
			return -1, true
		case a.d > b.d:
			return 1, true
		}
		return 0, true
	}
	return 0, false
}

// ---- the services

const (
	dsBadRequest    = 1
	dsInternalError = 3
)

// Call executes one API call on wire bytes.
func (f *Fake) Call(service, method string, req []byte, ticket string) ([]byte, *AppError) {
	f.mu.Lock()
	f.seq++
	f.calls[service+"."+method]++
	ci := &CallInfo{Service: service, Method: method, Request: req, Ticket: ticket, Seq: f.seq}
	hook := f.Hook
	f.mu.Unlock()
	f.describe(ci)
	if hook != nil {
		if e := hook(ci); e != nil {
			return nil, e
		}
	}
	f.mu.Lock()
	defer f.mu.Unlock()
	switch service + "." + method {
	case "datastore_v3.Put":
		return f.put(req)
	case "datastore_v3.Get":
		return f.get(req)
	case "datastore_v3.Delete":
		return f.del(req)
	case "datastore_v3.RunQuery":
		return f.runQuery(req)
	case "datastore_v3.Next":
		return appendVarint(nil, 3, 0), nil // more_results = false
	case "datastore_v3.BeginTransaction":
		h := f.nextTxn
		f.nextTxn++
		f.txns[h] = &txn{}
		var out []byte
		out = protowire.AppendTag(out, 1, protowire.Fixed64Type)
		out = protowire.AppendFixed64(out, h)
		out = appendBytes(out, 2, []byte("s~verif"))
		return out, nil
	case "datastore_v3.Commit":
		fs, _ := parse(req)
		for _, x := range fs {
			if x.num == 1 {
				if t := f.txns[x.v]; t != nil {
					for _, e := range t.puts {
						f.entities[e.key] = e
					}
					for _, k := range t.deletes {
						delete(f.entities, k)
					}
					delete(f.txns, x.v)
				}
			}
		}
		return nil, nil
	case "datastore_v3.Rollback":
		fs, _ := parse(req)
		for _, x := range fs {
			if x.num == 1 {
				delete(f.txns, x.v)
			}
		}
		return nil, nil
	case "memcache.Get":
		return f.memGet(req)
	case "memcache.Set":
		return f.memSet(req)
	case "memcache.Delete":
		return f.memDelete(req)
	case "memcache.Increment":
		return f.memIncrement(req)
	case "memcache.FlushAll":
		f.mem = map[string]memItem{}
		return nil, nil
	case "user.GetOAuthUser":
		return f.oauthUser(ticket)
	}
	return nil, &AppError{Code: dsBadRequest, Detail: "fake App Engine API: unsupported call " + service + "." + method}
}

func (f *Fake) describe(ci *CallInfo) {
	if ci.Service != "datastore_v3" {
		return
	}
	fs, err := parse(ci.Request)
	if err != nil {
		return
	}
	add := func(ref []byte) {
		if k, kind, _, err := keyOf(ref); err == nil {
			ci.Keys = append(ci.Keys, k)
			ci.Kinds = append(ci.Kinds, kind)
		}
	}
	for _, x := range fs {
		switch {
		case ci.Method == "Put" && x.num == 1:
			if efs, err := parse(x.b); err == nil {
				for _, e := range efs {
					if e.num == 13 {
						add(e.b)
					}
				}
			}
		case ci.Method == "Get" && x.num == 1, ci.Method == "Delete" && x.num == 6:
			add(x.b)
		case ci.Method == "RunQuery" && x.num == 3:
			ci.Kinds = append(ci.Kinds, string(x.b))
		}
	}
}

func txnHandle(fs []field, num protowire.Number) (uint64, bool) {
	for _, x := range fs {
		if x.num == num && x.typ == protowire.BytesType {
			tfs, err := parse(x.b)
			if err != nil {
				continue
			}
			for _, t := range tfs {
				if t.num == 1 {
					return t.v, true
				}
			}
		}
	}
	return 0, false
}

func (f *Fake) put(req []byte) ([]byte, *AppError) {
	fs, err := parse(req)
	if err != nil {
		return nil, &AppError{dsBadRequest, err.Error()}
	}
	h, inTxn := txnHandle(fs, 2)
	var out []byte
	for _, x := range fs {
		if x.num != 1 {
			continue
		}
		e, err := parseEntity(x.b)
		if err != nil {
			return nil, &AppError{dsBadRequest, err.Error()}
		}
		if inTxn && f.txns[h] != nil {
			f.txns[h].puts = append(f.txns[h].puts, e)
		} else {
			f.entities[e.key] = e
		}
		efs, _ := parse(x.b)
		for _, ef := range efs {
			if ef.num == 13 {
				out = appendBytes(out, 1, ef.b)
			}
		}
	}
	return out, nil
}

func (f *Fake) get(req []byte) ([]byte, *AppError) {
	fs, err := parse(req)
	if err != nil {
		return nil, &AppError{dsBadRequest, err.Error()}
	}
	var out []byte
	for _, x := range fs {
		if x.num != 1 {
			continue
		}
		k, _, _, err := keyOf(x.b)
		if err != nil {
			return nil, &AppError{dsBadRequest, err.Error()}
		}
		var grp []byte
		if e := f.entities[k]; e != nil {
			grp = appendBytes(grp, 2, e.raw)
		} else {
			grp = appendBytes(grp, 4, x.b)
		}
		out = appendGroup(out, 1, grp)
	}
	return out, nil
}

func (f *Fake) del(req []byte) ([]byte, *AppError) {
	fs, err := parse(req)
	if err != nil {
		return nil, &AppError{dsBadRequest, err.Error()}
	}
	h, inTxn := txnHandle(fs, 5)
	for _, x := range fs {
		if x.num != 6 {
			continue
		}
		k, _, _, err := keyOf(x.b)
		if err != nil {
			return nil, &AppError{dsBadRequest, err.Error()}
		}
		if inTxn && f.txns[h] != nil {
			f.txns[h].deletes = append(f.txns[h].deletes, k)
		} else {
			delete(f.entities, k)
		}
	}
	return nil, nil
}

type filter struct {
	op   uint64
	name string
	val  value
}

func (f *Fake) runQuery(req []byte) ([]byte, *AppError) {
	fs, err := parse(req)
	if err != nil {
		return nil, &AppError{dsBadRequest, err.Error()}
	}
	var kind string
	var filters []filter
	var keysOnly bool
	limit, offset := -1, 0
	type order struct {
		prop string
		desc bool
	}
	var orders []order
	for _, x := range fs {
		switch x.num {
		case 3:
			kind = string(x.b)
		case 4:
			ffs, _ := parse(x.b)
			var fl filter
			for _, ff := range ffs {
				switch ff.num {
				case 6:
					fl.op = ff.v
				case 14:
					fl.name, fl.val = parseProperty(ff.b)
				}
			}
			filters = append(filters, fl)
		case 9:
			ofs, _ := parse(x.b)
			var o order
			for _, of := range ofs {
				switch of.num {
				case 10:
					o.prop = string(of.b)
				case 11:
					o.desc = of.v == 2
				}
			}
			orders = append(orders, o)
		case 12:
			offset = int(x.v)
		case 16:
			limit = int(x.v)
		case 21:
			keysOnly = x.v != 0
		}
	}
	var res []*entity
	for _, e := range f.entities {
		if e.kind != kind {
			continue
		}
		ok := true
		for _, fl := range filters {
			match := false
			for _, v := range e.props[fl.name] {
				c, comparable := cmp(v, fl.val)
				if !comparable {
					continue
				}
				switch fl.op {
				case 1:
					match = match || c < 0
				case 2:
					match = match || c <= 0
				case 3:
					match = match || c > 0
				case 4:
					match = match || c >= 0
				case 5:
					match = match || c == 0
				}
			}
			if !match {
				ok = false
				break
			}
		}
		if ok {
			res = append(res, e)
		}
	}
	sort.Slice(res, func(i, j int) bool {
		for _, o := range orders {
			vi, vj := e0(res[i].props[o.prop]), e0(res[j].props[o.prop])
			if c, ok := cmp(vi, vj); ok && c != 0 {
				if o.desc {
					return c > 0
				}
				return c < 0
			}
		}
		return res[i].key < res[j].key
	})
	if offset > len(res) {
		offset = len(res)
	}
	res = res[offset:]
	if limit >= 0 && len(res) > limit {
		res = res[:limit]
	}
	var out []byte
	for _, e := range res {
		raw := e.raw
		if keysOnly {
			// key and entity_group only
			efs, _ := parse(e.raw)
			raw = nil
			for _, ef := range efs {
				if ef.num == 13 || ef.num == 16 {
					raw = appendBytes(raw, ef.num, ef.b)
				}
			}
		}
		out = appendBytes(out, 2, raw)
	}
	out = appendVarint(out, 3, 0) // more_results = false
	if keysOnly {
		out = appendVarint(out, 4, 1)
	}
	return out, nil
}

func e0(v []value) value {
	if len(v) == 0 {
		return value{}
	}
	return v[0]
}

func (f *Fake) memGet(req []byte) ([]byte, *AppError) {
	fs, err := parse(req)
	if err != nil {
		return nil, &AppError{1, err.Error()}
	}
	var out []byte
	forCAS := false
	for _, x := range fs {
		if x.num == 4 && x.v != 0 {
			forCAS = true
		}
	}
	for _, x := range fs {
		if x.num != 1 {
			continue
		}
		if it, ok := f.memLookup(string(x.b)); ok {
			var g []byte
			g = appendBytes(g, 2, x.b)
			g = appendBytes(g, 3, it.value)
			g = protowire.AppendTag(g, 4, protowire.Fixed32Type)
			g = protowire.AppendFixed32(g, it.flags)
			if forCAS {
				g = protowire.AppendTag(g, 5, protowire.Fixed64Type)
				g = protowire.AppendFixed64(g, it.cas)
			}
			out = appendGroup(out, 1, g)
		}
	}
	return out, nil
}

func (f *Fake) memSet(req []byte) ([]byte, *AppError) {
	fs, err := parse(req)
	if err != nil {
		return nil, &AppError{1, err.Error()}
	}
	var out []byte
	for _, x := range fs {
		if x.num != 1 || x.typ != protowire.StartGroupType {
			continue
		}
		ifs, _ := parse(x.b)
		var key string
		var it memItem
		policy, casID := uint64(1), uint64(0)
		for _, i := range ifs {
			switch i.num {
			case 2:
				key = string(i.b)
			case 3:
				it.value = append([]byte(nil), i.b...)
			case 4:
				it.flags = uint32(i.v)
			case 5:
				policy = i.v
			case 6:
				it.expires = memExpiry(i.v)
			case 8:
				casID = i.v
			}
		}
		if len(it.value) > f.MemcacheLimit || len(key) > 250 {
			out = appendVarint(out, 1, 3) // ERROR
			continue
		}
		old, exists := f.memLookup(key)
		switch {
		case policy == 2 && exists, policy == 3 && !exists, policy == 4 && !exists: // ADD / REPLACE / CAS
			out = appendVarint(out, 1, 2) // NOT_STORED
			continue
		case policy == 4 && old.cas != casID:
			out = appendVarint(out, 1, 4) // EXISTS
			continue
		}
		f.casCtr++
		it.cas = f.casCtr
		f.mem[key] = it
		out = appendVarint(out, 1, 1) // STORED
	}
	return out, nil
}

func (f *Fake) memDelete(req []byte) ([]byte, *AppError) {
	fs, err := parse(req)
	if err != nil {
		return nil, &AppError{1, err.Error()}
	}
	var out []byte
	for _, x := range fs {
		if x.num != 1 || x.typ != protowire.StartGroupType {
			continue
		}
		ifs, _ := parse(x.b)
		for _, i := range ifs {
			if i.num == 2 {
				if _, ok := f.memLookup(string(i.b)); ok {
					delete(f.mem, string(i.b))
					out = appendVarint(out, 1, 1) // DELETED
				} else {
					out = appendVarint(out, 1, 2) // NOT_FOUND
				}
			}
		}
	}
	return out, nil
}

// memIncrement: decimal counters as memcache keeps them (the value is the ASCII representation).
func (f *Fake) memIncrement(req []byte) ([]byte, *AppError) {
	fs, err := parse(req)
	if err != nil {
		return nil, &AppError{1, err.Error()}
	}
	var key string
	delta, dir := uint64(1), uint64(1)
	var initial *uint64
	var flags uint32
	for _, x := range fs {
		switch x.num {
		case 1:
			key = string(x.b)
		case 2:
			delta = x.v
		case 3:
			dir = x.v
		case 5:
			v := x.v
			initial = &v
		case 6:
			flags = uint32(x.v)
		}
	}
	it, ok := f.memLookup(key)
	var cur uint64
	if ok {
		n, perr := strconv.ParseUint(strings.TrimSpace(string(it.value)), 10, 64)
		if perr != nil {
			return appendVarint(nil, 2, 3), nil // ERROR: not a number
		}
		cur = n
	} else if initial != nil {
		cur = *initial
		it.flags = flags
	} else {
		return appendVarint(nil, 2, 2), nil // NOT_CHANGED: no such key
	}
	if dir == 2 {
		if delta > cur {
			cur = 0
		} else {
			cur -= delta
		}
	} else {
		cur += delta
	}
	it.value = []byte(strconv.FormatUint(cur, 10))
	f.casCtr++
	it.cas = f.casCtr
	f.mem[key] = it
	out := appendVarint(nil, 1, cur)
	return appendVarint(out, 2, 1), nil
}

// Ticket encodes the identity the platform front end established for a request:
// "oauth|<email>|<0 or 1 for admin>" or anything else for "no OAuth identity".
func Ticket(email string, admin bool) string {
	a := "0"
	if admin {
		a = "1"
	}
	return "oauth|" + email + "|" + a
}

// TicketNoEmail stands for a valid OAuth token whose user record has an empty e-mail address.
const TicketNoEmail = "oauth-noemail"

func (f *Fake) oauthUser(ticket string) ([]byte, *AppError) {
	parts := strings.Split(ticket, "|")
	if ticket == TicketNoEmail {
		// a valid token whose identity carries no e-mail address
		parts = []string{"oauth", "", "0"}
	} else if len(parts) != 3 || parts[0] != "oauth" || parts[1] == "" {
		return nil, &AppError{Code: 4, Detail: "OAUTH_INVALID_TOKEN"}
	}
	var out []byte
	out = appendBytes(out, 1, []byte(parts[1]))
	out = appendBytes(out, 2, []byte("id-"+parts[1]))
	out = appendBytes(out, 3, []byte("gmail.com"))
	if parts[2] == "1" {
		out = appendVarint(out, 5, 1)
	}
	return out, nil
}

// ---- inspection and manipulation by the harness

// Calls returns how often service.method was called.
func (f *Fake) Calls(name string) int {
	f.mu.Lock()
	defer f.mu.Unlock()
	return f.calls[name]
}

// EntityNames lists the key names of the stored entities of a kind.
func (f *Fake) EntityNames(kind string) []string {
	f.mu.Lock()
	defer f.mu.Unlock()
	var out []string
	for _, e := range f.entities {
		if e.kind == kind {
			out = append(out, e.name)
		}
	}
	sort.Strings(out)
	return out
}

// Kinds lists all kinds that have entities.
func (f *Fake) Kinds() []string {
	f.mu.Lock()
	defer f.mu.Unlock()
	seen := map[string]bool{}
	for _, e := range f.entities {
		seen[e.kind] = true
	}
	var out []string
	for k := range seen {
		out = append(out, k)
	}
	sort.Strings(out)
	return out
}

// EntityBool reads an indexed boolean property of an entity.
func (f *Fake) EntityBool(kind, name, prop string) (val, found bool) {
	f.mu.Lock()
	defer f.mu.Unlock()
	for _, e := range f.entities {
		if e.kind == kind && e.name == name {
			vs := e.props[prop]
			if len(vs) == 0 {
				return false, true
			}
			return vs[0].i != 0, true
		}
	}
	return false, false
}

// SetTime overwrites an indexed time property (microseconds since the epoch) of an entity, e.g. to age a
// backend's LastSeen. It rewrites the stored EntityProto.
// EntityTime reads a time-valued (int64 microseconds) property of a stored entity.
func (f *Fake) EntityTime(kind, name, prop string) (time.Time, bool) {
	f.mu.Lock()
	defer f.mu.Unlock()
	for _, e := range f.entities {
		if e.kind != kind || e.name != name {
			continue
		}
		efs, err := parse(e.raw)
		if err != nil {
			return time.Time{}, false
		}
		for _, ef := range efs {
			if ef.num == 14 && ef.typ == protowire.BytesType {
				if n, _ := parseProperty(ef.b); n == prop {
					pfs, _ := parse(ef.b)
					for _, pf := range pfs {
						if pf.num == 5 {
							vfs, _ := parse(pf.b)
							for _, vf := range vfs {
								if vf.num == 1 {
									return time.Unix(0, int64(vf.v)*1000), true
								}
							}
						}
					}
				}
			}
		}
	}
	return time.Time{}, false
}

func (f *Fake) SetTime(kind, name, prop string, t time.Time) bool {
	f.mu.Lock()
	defer f.mu.Unlock()
	for k, e := range f.entities {
		if e.kind != kind || e.name != name {
			continue
		}
		efs, err := parse(e.raw)
		if err != nil {
			return false
		}
		var raw []byte
		done := false
		for _, ef := range efs {
			if ef.num == 14 && ef.typ == protowire.BytesType {
				if n, _ := parseProperty(ef.b); n == prop {
					pfs, _ := parse(ef.b)
					var p []byte
					for _, pf := range pfs {
						if pf.num == 5 {
							p = appendBytes(p, 5, appendVarint(nil, 1, uint64(t.UnixNano()/1000)))
						} else {
							p = appendField(p, pf)
						}
					}
					raw = appendBytes(raw, 14, p)
					done = true
					continue
				}
			}
			raw = appendField(raw, ef)
		}
		if !done {
			return false
		}
		ne, err := parseEntity(raw)
		if err != nil {
			return false
		}
		f.entities[k] = ne
		return true
	}
	return false
}

func appendField(b []byte, f field) []byte {
	switch f.typ {
	case protowire.VarintType:
		return appendVarint(b, f.num, f.v)
	case protowire.Fixed32Type:
		b = protowire.AppendTag(b, f.num, protowire.Fixed32Type)
		return protowire.AppendFixed32(b, uint32(f.v))
	case protowire.Fixed64Type:
		b = protowire.AppendTag(b, f.num, protowire.Fixed64Type)
		return protowire.AppendFixed64(b, f.v)
	case protowire.BytesType:
		return appendBytes(b, f.num, f.b)
	case protowire.StartGroupType:
		return appendGroup(b, f.num, f.b)
	}
	return b
}

// SetHook installs (or removes, with nil) the fault hook.
func (f *Fake) SetHook(h func(ci *CallInfo) *AppError) {
	f.mu.Lock()
	defer f.mu.Unlock()
	f.Hook = h
}

// Reset drops all state.
func (f *Fake) Reset() {
	f.mu.Lock()
	defer f.mu.Unlock()
	f.entities = map[string]*entity{}
	f.mem = map[string]memItem{}
	f.txns = map[uint64]*txn{}
}

// FlushMemcache empties memcache only.
func (f *Fake) FlushMemcache() {
	f.mu.Lock()
	defer f.mu.Unlock()
	f.mem = map[string]memItem{}
}

// ---- the two front ends

// CallFunc adapts the fake to appengine.WithAPICallFunc for in-process use of app/store and app/cache.
func (f *Fake) CallFunc(ticket string) func(ctx context.Context, service, method string, in, out gproto.Message) error {
	return func(ctx context.Context, service, method string, in, out gproto.Message) error {
		req, err := gproto.Marshal(in)
		if err != nil {
			return err
		}
		resp, aerr := f.Call(service, method, req, ticket)
		if aerr != nil {
			return aerr
		}
		out.Reset()
		return gproto.Unmarshal(resp, out)
	}
}

// Serve exposes the fake as the remote API endpoint (/rpc_http) that the app binary talks to
// through API_HOST / API_PORT.
func (f *Fake) Serve() (host string, port string, err error) {
	ln, err := net.Listen("tcp", "127.0.0.1:0")
	if err != nil {
		return "", "", err
	}
	f.ln = ln
	f.srv = &http.Server{Handler: http.HandlerFunc(func(w http.ResponseWriter, r *http.Request) {
		body, _ := io.ReadAll(r.Body)
		fs, err := parse(body)
		if err != nil {
			http.Error(w, err.Error(), 400)
			return
		}
		var service, method, ticket string
		var req []byte
		for _, x := range fs {
			switch x.num {
			case 2:
				service = string(x.b)
			case 3:
				method = string(x.b)
			case 4:
				req = x.b
			case 5:
				ticket = string(x.b)
			}
		}
		resp, aerr := f.Call(service, method, req, ticket)
		var out []byte
		if aerr != nil {
			var ae []byte
			ae = appendVarint(ae, 1, uint64(aerr.Code))
			ae = appendBytes(ae, 2, []byte(aerr.Detail))
			out = appendBytes(out, 3, ae)
		} else {
			out = appendBytes(out, 1, resp)
		}
		w.Header().Set("Content-Type", "application/octet-stream")
		w.Write(out)
	})}
	go f.srv.Serve(ln)
	h, p, _ := net.SplitHostPort(ln.Addr().String())
	return h, p, nil
}

func (f *Fake) Close() {
	if f.srv != nil {
		f.srv.Close()
	}
}

var _ = bytes.Equal
