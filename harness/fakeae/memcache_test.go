package fakeae

import (
	"context"
	"os"
	"testing"
	"time"

	"google.golang.org/appengine/v2"
	"google.golang.org/appengine/v2/memcache"
)

// The fake's memcache against the SDK's own client: policies, counters, compare-and-swap, expiry.
func TestFakeMemcacheSemantics(t *testing.T) {
	os.Setenv("GAE_APPLICATION", "s~verif")
	f := New()
	ctx := appengine.WithAPICallFunc(context.Background(), f.CallFunc(""))
	if err := memcache.Add(ctx, &memcache.Item{Key: "k", Value: []byte("1")}); err != nil {
		t.Fatal(err)
	}
	if err := memcache.Add(ctx, &memcache.Item{Key: "k", Value: []byte("2")}); err != memcache.ErrNotStored {
		t.Fatalf("second Add: %v", err)
	}
	if n, err := memcache.Increment(ctx, "ctr", 5, 10); err != nil || n != 15 {
		t.Fatalf("Increment with initial value: %d %v", n, err)
	}
	if n, err := memcache.Increment(ctx, "ctr", -20, 0); err != nil || n != 0 {
		t.Fatalf("decrement below zero: %d %v", n, err)
	}
	if _, err := memcache.IncrementExisting(ctx, "absent", 1); err != memcache.ErrCacheMiss {
		t.Fatalf("IncrementExisting on a missing key: %v", err)
	}
	it, err := memcache.Get(ctx, "k")
	if err != nil || string(it.Value) != "1" {
		t.Fatalf("Get: %v %v", it, err)
	}
	it.Value = []byte("3")
	if err := memcache.CompareAndSwap(ctx, it); err != nil {
		t.Fatalf("CAS: %v", err)
	}
	it.Value = []byte("4")
	if err := memcache.CompareAndSwap(ctx, it); err != memcache.ErrCASConflict {
		t.Fatalf("stale CAS: %v", err)
	}
	if err := memcache.Set(ctx, &memcache.Item{Key: "e", Value: []byte("x"), Expiration: 30 * time.Second}); err != nil {
		t.Fatal(err)
	}
	if _, err := memcache.Get(ctx, "e"); err != nil {
		t.Fatalf("entry with an expiry in the future: %v", err)
	}
	f.MemcacheAge(31 * time.Second)
	if _, err := memcache.Get(ctx, "e"); err != memcache.ErrCacheMiss {
		t.Fatalf("expired entry: %v", err)
	}
	if err := memcache.Flush(ctx); err != nil {
		t.Fatal(err)
	}
	if _, err := memcache.Get(ctx, "k"); err != memcache.ErrCacheMiss {
		t.Fatalf("after flush: %v", err)
	}
}
