module verif/harness

go 1.23

// The code under test is built into its own binaries with the GODEBUG defaults of its go.mod (go 1.18), e.g. the
// pre-1.22 http.ServeMux. Packages that call it in-process get the same defaults.
godebug default=go1.18

require (
	github.com/golang/protobuf v1.5.3
	github.com/google/inverting-proxy v0.0.0
	github.com/gorilla/websocket v1.5.0
	golang.org/x/net v0.23.0
	google.golang.org/appengine/v2 v2.0.2
	google.golang.org/protobuf v1.33.0
	pgregory.net/rapid v1.3.0
)

require (
	cloud.google.com/go/compute/metadata v0.2.3 // indirect
	cloud.google.com/go/monitoring v1.13.0 // indirect
	github.com/golang/groupcache v0.0.0-20210331224755-41bb18bfe9da // indirect
	github.com/google/go-cmp v0.5.9 // indirect
	github.com/google/uuid v1.3.0 // indirect
	github.com/googleapis/enterprise-certificate-proxy v0.2.3 // indirect
	github.com/googleapis/gax-go/v2 v2.7.1 // indirect
	go.opencensus.io v0.24.0 // indirect
	golang.org/x/oauth2 v0.7.0 // indirect
	golang.org/x/sys v0.18.0 // indirect
	golang.org/x/text v0.14.0 // indirect
	google.golang.org/api v0.114.0 // indirect
	google.golang.org/genproto v0.0.0-20230526161137-0005af68ea54 // indirect
	google.golang.org/genproto/googleapis/api v0.0.0-20230525234035-dd9d682886f9 // indirect
	google.golang.org/genproto/googleapis/rpc v0.0.0-20230525234030-28d5490b6b19 // indirect
	google.golang.org/grpc v1.56.3 // indirect
)

replace github.com/google/inverting-proxy => /repo
