package c14

import (
	"bytes"
	"context"
	"fmt"
	"net/http"
	"net/http/httptest"
	"testing"

	"github.com/google/inverting-proxy/agent/banner"
	"pgregory.net/rapid"
	"verif/harness/vh"
)

// Fourth part: histories of requests through ONE banner handler. What is served for a request depends on that request
// alone: it equals what a handler that has never served anything serves for it.
var recHist = vh.NewRecorder("C14", "banner-history",
	"histories of 2-8 requests through one banner.Proxy instance, drawn from URLs that are easily taken for one another "+
		"(same path with and without percent-encoding, with and without an empty query, differing in letter case, in the order of "+
		"query parameters, in a trailing slash), framed and already-framed, HTML and non-HTML responses; oracle (differential): status, "+
		"headers and body of every answer equal what a fresh handler instance serves for the same request; non-trivial = the "+
		"history holds two different URLs whose decoded forms coincide; distinct = SHA-256 of the case")

type HistReq struct {
	URI    string `json:"uri"`
	Framed bool   `json:"already_framed,omitempty"`
	Plain  bool   `json:"backend_answers_text_plain,omitempty"`
}

type HistCase struct {
	Reqs []HistReq `json:"reqs"`
}

var confusable = [][]string{
	{"/docs/reports%2F2024", "/docs/reports/2024", "/docs/reports%2f2024", "/docs/reports/2024/"},
	{"/search%3Fq=1", "/search?q=1", "/search?q=1&", "/search?q=1&r=2", "/search?r=2&q=1"},
	{"/%41", "/A", "/a", "/A?", "/A/"},
	{"/p", "/p?", "/p?a=1", "/p?a=1#frag", "/p%3Fa=1", "/p/?a=1"},
	{"/caf%C3%A9", "/caf%c3%a9", "/cafe%CC%81"},
	{"/x%20y", "/x+y", "/x%2By"},
}

func histHandler() (http.Handler, error) {
	wrapped := http.HandlerFunc(func(w http.ResponseWriter, r *http.Request) {
		if r.Header.Get("X-Plain") != "" {
			w.Header().Set("Content-Type", "text/plain")
		} else {
			w.Header().Set("Content-Type", "text/html; charset=utf-8")
		}
		w.WriteHeader(200)
		w.Write([]byte("<html><head></head><body>original of " + r.URL.String() + "</body></html>"))
	})
	return banner.Proxy(context.Background(), wrapped, bannerHTML, "40px", "https://static.example/fav.png", nil)
}

func histServe(h http.Handler, q HistReq) recorded {
	target := q.URI
	if i := bytes.IndexByte([]byte(target), '#'); i >= 0 {
		target = target[:i]
	}
	r := httptest.NewRequest("GET", "http://app.example/", nil)
	u, perr := r.URL.Parse(target)
	if perr != nil {
		return recorded{}
	}
	u.Scheme, u.Host = "", ""
	r.URL = u
	r.RequestURI = target
	r.Host = "app.example"
	r.Header.Set("Accept", "text/html,application/xhtml+xml")
	if q.Framed {
		r.Header.Set("Sec-Fetch-Dest", "iframe")
	}
	if q.Plain {
		r.Header.Set("X-Plain", "1")
	}
	return serve(h, r)
}

func runHist(c *HistCase) vh.Outcome {
	o := vh.Outcome{}
	h, err := histHandler()
	if err != nil {
		o.Err = err
		return o
	}
	group := map[string]int{}
	for gi, g := range confusable {
		for _, u := range g {
			group[u] = gi + 1
		}
	}
	seenGroups := map[int]map[string]bool{}
	for i, q := range c.Reqs {
		if g := group[q.URI]; g > 0 {
			if seenGroups[g] == nil {
				seenGroups[g] = map[string]bool{}
			}
			seenGroups[g][q.URI] = true
			if len(seenGroups[g]) >= 2 {
				o.NonTrivial = true
			}
		}
		got := histServe(h, q)
		fresh, ferr := histHandler()
		if ferr != nil {
			o.Err = ferr
			return o
		}
		want := histServe(fresh, q)
		if got.code != want.code || !bytes.Equal(got.body, want.body) {
			o.Err = fmt.Errorf("request %d (%s, already framed %v) through a handler that had served %d requests before: status %d, body ...%q; a handler that has served nothing answers the same request with status %d, body ...%q",
				i, q.URI, q.Framed, i, got.code, tailOf(got.body), want.code, tailOf(want.body))
			return o
		}
		if d := headerDiff(got.hdr, want.hdr, map[string]bool{"Date": true}); d != "" { // (the two answers may straddle a second)
			o.Err = fmt.Errorf("request %d (%s) through a handler that had served %d requests before: headers differ from those of a fresh handler: %s", i, q.URI, i, d)
			return o
		}
	}
	return o
}

func TestPropBannerHistory(t *testing.T) {
	vh.Rapid(t, vh.Scale(400, 6000), func(rt *rapid.T) {
		var c HistCase
		n := rapid.IntRange(2, 8).Draw(rt, "n")
		g := rapid.SampledFrom(confusable).Draw(rt, "group")
		for i := 0; i < n; i++ {
			if rapid.IntRange(0, 4).Draw(rt, "otherGroup") == 0 {
				g = rapid.SampledFrom(confusable).Draw(rt, "group2")
			}
			c.Reqs = append(c.Reqs, HistReq{URI: rapid.SampledFrom(g).Draw(rt, "uri"), Framed: rapid.IntRange(0, 4).Draw(rt, "framed") == 0,
				Plain: rapid.IntRange(0, 5).Draw(rt, "plain") == 0})
		}
		recHist.Check(rt, &c, func() vh.Outcome { return runHist(&c) })
	})
}
