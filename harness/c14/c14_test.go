// Package c14 checks property C14: banner and shim-script injection touch HTML documents only.
package c14

import (
	"bufio"
	"bytes"
	"context"
	"fmt"
	"html"
	"io"
	"net/http"
	"net/http/httptest"
	"net/url"
	"regexp"
	"runtime"
	"sort"
	"strings"
	"sync"
	"testing"
	"time"

	"github.com/google/inverting-proxy/agent/banner"
	"github.com/google/inverting-proxy/agent/websockets"
	"pgregory.net/rapid"
	"verif/harness/vh"
)

var (
	recB = vh.NewRecorder("C14", "banner",
		"request (method, Accept, Sec-Fetch-Mode/Dest, Referer same/different host and path, Host, clean path+query) x wrapped-handler response "+
			"(status, 0-2 Content-Type values from HTML/xhtml/plain/json variants in mixed case, Content-Disposition none/inline/attachment in mixed "+
			"case, other headers incl. caching ones, body, write segmentation, implicit or explicit WriteHeader) through banner.Proxy in-process "+
			"with a neutral recording ResponseWriter; differential against the wrapped handler's own response with a reference predicate from "+
			"the property text (set-valued: altered => GET and Accept text/html and 200 and non-attachment and HTML type); non-trivial = the "+
			"response is HTML; distinct = SHA-256 of the canonical case"+
			" Later additions: malformed attachment parameters; a 1xx interim response in front of the final one.")
	recS = vh.NewRecorder("C14", "shim-script",
		"responses (Content-Type variants, body with <head> at offsets {0, mid, 1013..1024 straddling the 1024-byte window, beyond it, absent, "+
			"repeated, upper-case, with attributes}, generated read segmentation of the backend body) through websockets.ShimBody in-process, "+
			"optionally followed by banner.Proxy; oracle: non-HTML => body and headers identical; HTML => body is the original or the original "+
			"with one script block (start/end markers, shim path) spliced immediately after the first <head>, and it must be spliced when the "+
			"first <head> lies wholly inside the first read of at most 1024 bytes; only Content-Length may change; non-trivial = HTML response"+
			" Later additions: filler of multi-byte and invalid UTF-8; bodiless responses (HEAD, 204, 302, 304).")
)

var recC = vh.NewRecorder("C14", "banner-concurrent",
	"8-32 goroutines x 5-20 banner-framed requests each (GET, Accept text/html, 200 text/html, distinct URLs with queries) at the same "+
		"time through one banner.Proxy handler with a response writer that yields between header and body (as the agent's forwarder does), "+
		"under -race; oracle: every served frame page is byte-identical to the page rendered for the same URL on its own (it embeds the "+
		"requested URL and nothing of another request); non-trivial = at least two requests overlapped (always)")

func TestMain(m *testing.M) { vh.Main(m, recB, recS, recC, recHist) }

// ------------------------------------------------------------ banner

type BannerCase struct {
	Method      string           `json:"method"`
	Accept      string           `json:"accept"`
	FetchMode   string           `json:"sec_fetch_mode,omitempty"`
	FetchDest   string           `json:"sec_fetch_dest,omitempty"`
	Referer     string           `json:"referer,omitempty"`
	Host        string           `json:"host"`
	Path        string           `json:"path"`
	Query       string           `json:"query,omitempty"`
	Status      int              `json:"status"`
	ContentType []string         `json:"content_type"`
	Disposition string           `json:"content_disposition,omitempty"`
	Other       []vh.HeaderField `json:"other,omitempty"`
	Body        string           `json:"body"`
	Segments    []int            `json:"segments,omitempty"`
	Explicit    bool             `json:"explicit_write_header"`
	FavIcon     bool             `json:"favicon"`
	Interim     int              `json:"interim_status,omitempty"` // a 1xx response precedes the final one (relayed the way httputil.ReverseProxy does)
}

var (
	ctypes = []string{"text/html", "text/html; charset=utf-8", "TEXT/HTML", "Text/Html;charset=UTF-8", "application/xhtml+xml", "text/plain", "application/json",
		"text/htmlx", "application/octet-stream", "image/png", "text/xml", "application/XHTML+XML",
		// not HTML, although a parameter mentions it
		"application/json; profile=\"text/html\"", "multipart/related; type=\"text/html\"; boundary=b", "text/plain; charset=utf-8; x-original-type=\"text/html\""}
	dispositions = []string{"", "", "", "inline", "attachment", "attachment; filename=\"x.html\"", "Attachment; filename=x.html", "ATTACHMENT", "inline; filename=attachment.html",
		"attachment; filename=monthly report.html", "attachment; filename", "attachment; filename=", "attachment;", "attachment ; filename=\"a\"; filename=\"b\"",
		"attachment; filename=r\u00e9sum\u00e9.html", "attachment; filename*=UTF-8''x.html", " attachment", "attachment; filename=a/b.html", "attachment;filename=\"unterminated"}
	accepts = []string{"text/html", "text/html,application/xhtml+xml,application/xml;q=0.9,*/*;q=0.8", "*/*", "", "application/json", "TEXT/HTML", "text/plain, text/html;q=0.5", "image/webp"}
)

const bannerHTML = `<b id="verif-banner">BANNER</b>`

func genBanner(t *rapid.T) BannerCase {
	c := BannerCase{
		Method:      rapid.SampledFrom([]string{"GET", "GET", "GET", "POST", "HEAD", "PUT"}).Draw(t, "method"),
		Accept:      rapid.SampledFrom(accepts).Draw(t, "accept"),
		FetchMode:   rapid.SampledFrom([]string{"", "", "navigate", "nested-navigate", "cors"}).Draw(t, "mode"),
		FetchDest:   rapid.SampledFrom([]string{"", "", "document", "iframe", "script"}).Draw(t, "dest"),
		Host:        rapid.SampledFrom([]string{"app.example", "app.example:8443"}).Draw(t, "host"),
		Path:        rapid.SampledFrom([]string{"/", "/page", "/a/b.html", "/x%20y", "/q", "/a//b.html", "/a/./b", "/a/../b.html", "//evil.example/login", "//evil.example"}).Draw(t, "path"),
		Query:       rapid.SampledFrom([]string{"", "a=1", "next=%2Fhome&x=<y>", "q=1&amp;lang=en", "q=\"><script>alert(1)</script>", "a=&quot;b"}).Draw(t, "query"),
		Status:      rapid.SampledFrom([]int{200, 200, 200, 201, 204, 301, 304, 404, 500}).Draw(t, "status"),
		Disposition: rapid.SampledFrom(dispositions).Draw(t, "disp"),
		Explicit:    rapid.Bool().Draw(t, "explicit"),
		FavIcon:     rapid.Bool().Draw(t, "favicon"),
	}
	if rapid.IntRange(0, 9).Draw(t, "interim") == 0 {
		c.Interim = rapid.SampledFrom([]int{103, 102, 100}).Draw(t, "interimStatus")
	}
	nct := rapid.SampledFrom([]int{1, 1, 1, 0, 2}).Draw(t, "nct")
	for i := 0; i < nct; i++ {
		c.ContentType = append(c.ContentType, rapid.SampledFrom(ctypes).Draw(t, "ctype"))
	}
	if rapid.IntRange(0, 9).Draw(t, "likelyHTML") < 4 {
		// steer a good share of the cases into the region where the banner may fire, varying one condition at a time
		c.Method, c.Status = "GET", 200
		c.Accept = rapid.SampledFrom(accepts[:2]).Draw(t, "acceptHTML")
		c.ContentType = []string{rapid.SampledFrom(ctypes[:5]).Draw(t, "ctypeHTML")}
		switch rapid.IntRange(0, 7).Draw(t, "spoil") {
		case 0:
			c.Method = "POST"
		case 1:
			c.Status = 201
		case 2:
			c.Accept = "*/*"
		case 3:
			c.ContentType = []string{"text/plain"}
		}
	}
	switch rapid.IntRange(0, 4).Draw(t, "ref") {
	case 1:
		c.Referer = "https://" + c.Host + c.Path
	case 2:
		c.Referer = "https://" + c.Host + "/elsewhere"
	case 3:
		c.Referer = "https://other.example" + c.Path
	case 4:
		c.Referer = "::not a url"
	}
	c.Other = rapid.SliceOfN(rapid.Custom(func(t *rapid.T) vh.HeaderField {
		return vh.HeaderField{Name: rapid.SampledFrom([]string{"Cache-Control", "Expires", "Pragma", "X-Frame-Options", "Content-Encoding", "ETag", "Set-Cookie", "X-Custom", "Date", "Content-Length"}).Draw(t, "on"),
			Value: rapid.SampledFrom([]string{"max-age=3600", "DENY", "gzip", "\"tag\"", "a=b", "Thu, 01 Jan 2026 00:00:00 GMT", "public", "17"}).Draw(t, "ov")}
	}), 0, 4).Draw(t, "other")
	c.Body = rapid.SampledFrom([]string{"<html><head><title>t</title></head><body>hello</body></html>", "", "{\"a\":1}", "plain text", strings.Repeat("<p>x</p>", 300)}).Draw(t, "body")
	c.Segments = rapid.SliceOfN(rapid.SampledFrom([]int{1, 5, 100, 1024}), 0, 4).Draw(t, "segments")
	return c
}

type recorded struct {
	code int
	hdr  http.Header
	body []byte
}

func (c *BannerCase) wrapped() http.Handler {
	return http.HandlerFunc(func(w http.ResponseWriter, r *http.Request) {
		if c.Interim != 0 {
			w.Header().Set("Link", "</style.css>; rel=preload; as=style")
			w.WriteHeader(c.Interim)
			w.Header().Del("Link")
		}
		for _, ct := range c.ContentType {
			w.Header().Add("Content-Type", ct)
		}
		if c.Disposition != "" {
			w.Header().Set("Content-Disposition", c.Disposition)
		}
		for _, f := range c.Other {
			w.Header().Add(f.Name, f.Value)
		}
		if c.Explicit || c.Status != 200 {
			w.WriteHeader(c.Status)
		}
		rest := []byte(c.Body)
		for i := 0; len(rest) > 0; i++ {
			n := len(rest)
			if i < len(c.Segments) && c.Segments[i] < n {
				n = c.Segments[i]
			}
			w.Write(rest[:n])
			rest = rest[n:]
		}
		if !c.Explicit && c.Status == 200 && len(c.Body) == 0 {
			w.WriteHeader(200)
		}
	})
}

func (c *BannerCase) request() *http.Request {
	uri := c.Path
	if c.Query != "" {
		uri += "?" + c.Query
	}
	// parsed from the wire, as the agent parses the request it fetched: the URL holds path and query only
	r, err := http.ReadRequest(bufio.NewReader(strings.NewReader(c.Method + " " + uri + " HTTP/1.1\r\nHost: " + c.Host + "\r\n\r\n")))
	if err != nil {
		r = httptest.NewRequest(c.Method, "http://"+c.Host+"/unparsable", nil)
	}
	r.Host = c.Host
	if c.Accept != "" {
		r.Header.Set("Accept", c.Accept)
	}
	if c.FetchMode != "" {
		r.Header.Set("Sec-Fetch-Mode", c.FetchMode)
	}
	if c.FetchDest != "" {
		r.Header.Set("Sec-Fetch-Dest", c.FetchDest)
	}
	if c.Referer != "" {
		r.Header.Set("Referer", c.Referer)
	}
	return r
}

func serve(h http.Handler, r *http.Request) recorded {
	w := vh.NewPlainWriter()
	h.ServeHTTP(w, r)
	return recorded{w.Code, w.Sent, w.Body.Bytes()}
}

func headerDiff(a, b http.Header, ignore map[string]bool) string {
	keys := map[string]bool{}
	for k := range a {
		keys[k] = true
	}
	for k := range b {
		keys[k] = true
	}
	var ks []string
	for k := range keys {
		ks = append(ks, k)
	}
	sort.Strings(ks)
	for _, k := range ks {
		if ignore[k] {
			continue
		}
		if strings.Join(a[k], "\x00") != strings.Join(b[k], "\x00") || len(a[k]) != len(b[k]) {
			return fmt.Sprintf("%s: %q -> %q", k, a[k], b[k])
		}
	}
	return ""
}

// mayAlter is the reference predicate from the property text (liberal about letter case: the
// implementation may recognise fewer documents, it must not alter more).
func (c *BannerCase) mayAlter() bool {
	if c.Method != "GET" || !strings.Contains(strings.ToLower(c.Accept), "text/html") || c.Status != 200 {
		return false
	}
	if strings.Contains(strings.ToLower(c.Disposition), "attachment") && strings.HasPrefix(strings.ToLower(strings.TrimSpace(c.Disposition)), "attachment") {
		return false
	}
	for _, ct := range c.ContentType {
		l := mediaTypeOf(ct)
		if strings.Contains(l, "text/html") || strings.Contains(l, "application/xhtml+xml") {
			return true
		}
	}
	return false
}

// mediaTypeOf returns the lower-cased media type of a Content-Type value without its parameters: what a parameter
// says (profile="text/html", type="text/html") does not make a response an HTML document.
func mediaTypeOf(ct string) string {
	if i := strings.IndexByte(ct, ';'); i >= 0 {
		ct = ct[:i]
	}
	return strings.ToLower(strings.TrimSpace(ct))
}

func (c *BannerCase) framedAlready() bool {
	if c.FetchMode == "nested-navigate" || c.FetchDest == "iframe" {
		return true
	}
	return c.Referer == "https://"+c.Host+c.Path
}

var cacheFrameHeaders = map[string]bool{"Cache-Control": true, "Date": true, "Expires": true, "Pragma": true, "X-Frame-Options": true}

func runBanner(c *BannerCase) vh.Outcome {
	o := vh.Outcome{}
	fav := ""
	if c.FavIcon {
		fav = "https://static.example/fav.png"
	}
	h, err := banner.Proxy(context.Background(), c.wrapped(), bannerHTML, "40px", fav, nil)
	if err != nil {
		o.Err = err
		return o
	}
	orig := serve(c.wrapped(), c.request())
	got := serve(h, c.request())
	may := c.mayAlter()
	if c.Interim != 0 {
		o.Classes = append(o.Classes, "interim-response-first")
	}
	o.NonTrivial = may || strings.Contains(strings.ToLower(strings.Join(c.ContentType, ",")), "html")
	identical := got.code == orig.code && bytes.Equal(got.body, orig.body) && headerDiff(orig.hdr, got.hdr, nil) == ""
	if !may {
		o.Classes = append(o.Classes, "must-be-untouched")
		if !identical {
			o.Err = fmt.Errorf("a response that is not a 200 non-attachment HTML reply to a GET accepting text/html was altered: status %d -> %d, header change %q, body %d -> %d bytes (request %s Accept=%q, Content-Type=%q, Content-Disposition=%q)",
				orig.code, got.code, headerDiff(orig.hdr, got.hdr, nil), len(orig.body), len(got.body), c.Method, c.Accept, c.ContentType, c.Disposition)
		}
		return o
	}
	if identical {
		o.Classes = append(o.Classes, "html-left-untouched")
		return o
	}
	if got.code != orig.code {
		o.Err = fmt.Errorf("status altered: %d -> %d", orig.code, got.code)
		return o
	}
	if c.framedAlready() {
		o.Classes = append(o.Classes, "already-framed")
		if !bytes.Equal(got.body, orig.body) {
			o.Err = fmt.Errorf("an already framed request did not get the original body (%d -> %d bytes)", len(orig.body), len(got.body))
			return o
		}
		if d := headerDiff(orig.hdr, got.hdr, cacheFrameHeaders); d != "" {
			o.Err = fmt.Errorf("an already framed request had headers other than the cache/frame ones changed: %s", d)
		}
		return o
	}
	if bytes.Equal(got.body, orig.body) {
		// headers changed only (marked uncacheable) - allowed only for cache/frame headers
		if d := headerDiff(orig.hdr, got.hdr, cacheFrameHeaders); d != "" {
			o.Err = fmt.Errorf("headers other than the cache/frame ones changed without the frame being served: %s", d)
		}
		return o
	}
	// the banner frame was served
	o.Classes = append(o.Classes, "frame-served")
	body := string(got.body)
	if !strings.Contains(body, bannerHTML) {
		o.Err = fmt.Errorf("frame page does not contain the banner")
		return o
	}
	// the frame's src attribute, read the way a browser reads it (character references decoded, resolved against the
	// URL of the page), must be the requested URL: same host, same path and query
	m := regexp.MustCompile(`<iframe[^>]* src="([^"]*)"`).FindStringSubmatch(body)
	if m == nil {
		o.Err = fmt.Errorf("frame page has no iframe with a src attribute: %q", body)
		return o
	}
	base := &url.URL{Scheme: "http", Host: c.Host, Path: "/"}
	ref, perr := url.Parse(html.UnescapeString(m[1]))
	// (both sides go through the same resolution, so that dot segments a browser would remove are not held against the page)
	ru := c.request().URL
	want := base.ResolveReference(&url.URL{Path: ru.Path, RawPath: ru.RawPath, RawQuery: ru.RawQuery}).String()
	if perr != nil || base.ResolveReference(ref).String() != want {
		resolved := ""
		if perr == nil {
			resolved = base.ResolveReference(ref).String()
		}
		o.Err = fmt.Errorf("the frame page for %s embeds src=\"%s\", which a browser resolves to %q, not to the requested URL", want, m[1], resolved)
		return o
	}
	cc := strings.ToLower(got.hdr.Get("Cache-Control"))
	if !strings.Contains(cc, "no-cache") || !strings.Contains(cc, "no-store") || got.hdr.Get("Pragma") != "no-cache" || got.hdr.Get("Expires") != "Mon, 01 Jan 0001 00:00:00 GMT" {
		o.Err = fmt.Errorf("frame page is not marked uncacheable: Cache-Control=%q Pragma=%q Expires=%q", got.hdr.Values("Cache-Control"), got.hdr.Values("Pragma"), got.hdr.Values("Expires"))
		return o
	}
	if xf := got.hdr.Values("X-Frame-Options"); len(xf) != 1 || strings.ToLower(xf[0]) != "sameorigin" {
		o.Err = fmt.Errorf("frame page X-Frame-Options = %q, expected sameorigin", xf)
		return o
	}
	ign := map[string]bool{"Content-Encoding": true, "Content-Length": true}
	for k := range cacheFrameHeaders {
		ign[k] = true
	}
	if d := headerDiff(orig.hdr, got.hdr, ign); d != "" {
		o.Err = fmt.Errorf("frame page changed an unrelated header: %s", d)
	}
	return o
}

func TestPropBanner(t *testing.T) {
	vh.Rapid(t, vh.Scale(6000, 200000), func(rt *rapid.T) {
		c := genBanner(rt)
		recB.Check(rt, &c, func() vh.Outcome { return runBanner(&c) })
	})
}

// ------------------------------------------------------------ shim script

type ShimCase struct {
	ContentType string `json:"content_type"`
	Pre         int    `json:"bytes_before_head"` // -1: no <head>
	HeadForm    string `json:"head_form"`
	Repeat      bool   `json:"second_head"`
	Tail        int    `json:"tail_bytes"`
	Reads       []int  `json:"read_sizes"`
	Status      int    `json:"status"`
	ThenBanner  bool   `json:"then_banner"`
	Filler      string `json:"filler,omitempty"`     // what the bytes before <head> are made of (default "p")
	Empty       bool   `json:"empty_body,omitempty"` // a response without any body bytes (HEAD, 204, 304, redirects, empty pages)
}

const startMark, endMark = "<!--START_WEBSOCKET_SHIM-->", "<!--END_WEBSOCKET_SHIM-->"

func genShim(t *rapid.T) ShimCase {
	c := ShimCase{
		ContentType: rapid.SampledFrom([]string{"text/html", "text/html; charset=utf-8", "TEXT/HTML", "application/xhtml+xml", "text/plain", "application/json", "", "image/svg+xml", "text/HTML",
			"application/json; profile=\"text/html\"", "multipart/related; type=\"text/html\"; boundary=b"}).Draw(t, "ct"),
		HeadForm:   rapid.SampledFrom([]string{"<head>", "<head>", "<head>", "<HEAD>", "<head lang=\"en\">", "<head >", "<header>"}).Draw(t, "form"),
		Repeat:     rapid.Bool().Draw(t, "repeat"),
		Tail:       rapid.SampledFrom([]int{0, 10, 2000, 70000}).Draw(t, "tail"),
		Status:     rapid.SampledFrom([]int{200, 200, 404, 500}).Draw(t, "status"),
		ThenBanner: rapid.IntRange(0, 3).Draw(t, "banner") == 0,
	}
	switch rapid.IntRange(0, 5).Draw(t, "where") {
	case 0:
		c.Pre = -1
	case 1:
		c.Pre = 0
	case 2:
		c.Pre = rapid.IntRange(1012, 1026).Draw(t, "edge")
	case 3:
		c.Pre = rapid.IntRange(1, 1500).Draw(t, "any")
	case 4:
		c.Pre = rapid.SampledFrom([]int{6, 100, 512, 2048, 5000}).Draw(t, "fixed")
	default:
		c.Pre = 12
	}
	if rapid.IntRange(0, 11).Draw(t, "empty") == 0 {
		c.Empty = true
		c.Status = rapid.SampledFrom([]int{200, 204, 302, 304, 404}).Draw(t, "emptyStatus")
	}
	c.Reads = rapid.SliceOfN(rapid.SampledFrom([]int{1, 3, 6, 7, 100, 512, 1018, 1023, 1024, 1025, 4096, 100000}), 0, 4).Draw(t, "reads")
	// mostly ASCII; sometimes valid multi-byte UTF-8, characters whose case mapping changes length, or legacy 8-bit bytes
	c.Filler = rapid.SampledFrom([]string{"p", "p", "p", "\u00e9", "\u0130", "\u212a", "\xe9", "\xff", "<!-- \xc4\xd6 -->", "P"}).Draw(t, "filler")
	return c
}

func (c *ShimCase) body() []byte {
	var b bytes.Buffer
	if c.Empty {
		return nil
	}
	if c.Pre >= 0 {
		f := c.Filler
		if f == "" {
			f = "p"
		}
		for b.Len()+len(f) <= c.Pre {
			b.WriteString(f)
		}
		b.WriteString(strings.Repeat("p", c.Pre-b.Len()))
		b.WriteString(c.HeadForm)
	}
	b.WriteString("<title>x</title>")
	if c.Repeat {
		b.WriteString("<head>second")
	}
	b.WriteString(strings.Repeat("t", c.Tail))
	return b.Bytes()
}

type segReader struct {
	data  []byte
	reads []int
	i     int
	first int // size of the first read actually served (-1: none yet)
}

func (s *segReader) Read(p []byte) (int, error) {
	if len(s.data) == 0 {
		return 0, io.EOF
	}
	n := len(p)
	if s.i < len(s.reads) && s.reads[s.i] < n {
		n = s.reads[s.i]
	}
	s.i++
	if n > len(s.data) {
		n = len(s.data)
	}
	copy(p, s.data[:n])
	s.data = s.data[n:]
	if s.first < 0 {
		s.first = n
	}
	return n, nil
}

func (s *segReader) Close() error { return nil }

var shimFunc func(*http.Response) error

func runShim(c *ShimCase) vh.Outcome {
	o := vh.Outcome{}
	if shimFunc == nil {
		f, err := websockets.ShimBody("shimpath")
		if err != nil {
			o.Err = err
			return o
		}
		shimFunc = f
	}
	orig := c.body()
	sr := &segReader{data: append([]byte(nil), orig...), reads: c.Reads, first: -1}
	resp := &http.Response{StatusCode: c.Status, Header: http.Header{}, Body: sr, ContentLength: int64(len(orig))}
	if c.ContentType != "" {
		resp.Header.Set("Content-Type", c.ContentType)
	}
	resp.Header.Set("Content-Length", fmt.Sprint(len(orig)))
	resp.Header.Set("X-Other", "keep")
	resp.Header.Add("Set-Cookie", "a=b")
	before := resp.Header.Clone()
	if err := shimFunc(resp); err != nil {
		o.Err = fmt.Errorf("ShimBody returned an error: %v", err)
		return o
	}
	isHTML := strings.Contains(mediaTypeOf(c.ContentType), "html")
	o.NonTrivial = isHTML
	if c.Empty {
		o.Classes = append(o.Classes, "empty-body")
	}
	var got []byte
	var hdr http.Header
	if c.ThenBanner {
		// as in the agent: the modified response is written through the banner handler
		inner := http.HandlerFunc(func(w http.ResponseWriter, r *http.Request) {
			for k, v := range resp.Header {
				w.Header()[k] = v
			}
			w.WriteHeader(resp.StatusCode)
			io.Copy(w, resp.Body)
		})
		h, _ := banner.Proxy(context.Background(), inner, bannerHTML, "40px", "", nil)
		// a request the banner must leave alone (no Accept: text/html), so that the shim's output is visible
		r := httptest.NewRequest("GET", "http://app.example/page", nil)
		r.Header.Set("Accept", "*/*")
		rec := serve(h, r)
		got, hdr = rec.body, rec.hdr
		o.Classes = append(o.Classes, "through-banner-handler")
	} else {
		got, _ = io.ReadAll(resp.Body)
		hdr = resp.Header
	}
	if d := headerDiff(before, hdr, map[string]bool{"Content-Length": true}); d != "" {
		o.Err = fmt.Errorf("shim-script injection changed a header other than Content-Length: %s", d)
		return o
	}
	if !isHTML {
		o.Classes = append(o.Classes, "non-html")
		if !bytes.Equal(got, orig) || hdr.Get("Content-Length") != before.Get("Content-Length") {
			o.Err = fmt.Errorf("a %q response was altered by shim-script injection (%d -> %d bytes)", c.ContentType, len(orig), len(got))
		}
		return o
	}
	idx := bytes.Index(orig, []byte("<head>"))
	if bytes.Equal(got, orig) {
		o.Classes = append(o.Classes, "html-not-spliced")
		if idx >= 0 && sr.first >= 0 && idx+6 <= sr.first && idx+6 <= 1024 {
			o.Err = fmt.Errorf("<head> ends at offset %d, inside the first read of %d bytes, but the script was not inserted", idx+6, sr.first)
		}
		return o
	}
	o.Classes = append(o.Classes, "html-spliced")
	// tag names are case-insensitive: a splice after the first <head> in any letter case is as good as one after the
	// first lower-case one (the pinned code only recognises the latter, which is why only that one is demanded above)
	idxAny := bytes.Index(bytes.ToLower(asciiOnlyLower(orig)), []byte("<head>"))
	isSplice := func(at int) bool {
		if at < 0 {
			return false
		}
		cut := at + 6
		return len(got) >= len(orig) && bytes.Equal(got[:cut], orig[:cut]) && bytes.Equal(got[len(got)-(len(orig)-cut):], orig[cut:])
	}
	switch {
	case isSplice(idx):
	case isSplice(idxAny):
		idx = idxAny
		o.Classes = append(o.Classes, "spliced-after-uppercase-head")
	case idx < 0 && idxAny < 0:
		o.Err = fmt.Errorf("body without a <head> tag was altered: %d -> %d bytes", len(orig), len(got))
		return o
	default:
		o.Err = fmt.Errorf("altered body is not 'original with something inserted immediately after the first <head>' (first <head> at %d, %d -> %d bytes)", idx, len(orig), len(got))
		return o
	}
	cut := idx + 6
	ins := string(got[cut : len(got)-(len(orig)-cut)])
	if strings.Count(ins, startMark) != 1 || strings.Count(ins, endMark) != 1 || !strings.Contains(ins, "<script>") || !strings.Contains(ins, "/shimpath/") ||
		!strings.HasPrefix(strings.TrimSpace(ins), startMark) || !strings.HasSuffix(strings.TrimSpace(ins), endMark) {
		o.Err = fmt.Errorf("inserted text is not exactly one shim script block: %q…", ins[:min(len(ins), 80)])
		return o
	}
	if sr.first >= 0 && idx+6 > sr.first {
		o.Classes = append(o.Classes, "spliced-beyond-first-read")
	}
	return o
}

// asciiOnlyLower lower-cases A-Z only, so that offsets stay valid for any bytes.
func asciiOnlyLower(b []byte) []byte {
	out := append([]byte(nil), b...)
	for i, c := range out {
		if c >= 'A' && c <= 'Z' {
			out[i] = c + 32
		}
	}
	return out
}

func TestPropShimScript(t *testing.T) {
	vh.Rapid(t, vh.Scale(6000, 200000), func(rt *rapid.T) {
		c := genShim(rt)
		recS.Check(rt, &c, func() vh.Outcome { return runShim(&c) })
	})
}

// slowWriter yields between the calls of a handler, as a writer backed by a pipe does.
type slowWriter struct{ *vh.PlainWriter }

func (w slowWriter) WriteHeader(code int) {
	runtime.Gosched()
	w.PlainWriter.WriteHeader(code)
	time.Sleep(50 * time.Microsecond)
}

func (w slowWriter) Write(b []byte) (int, error) {
	time.Sleep(50 * time.Microsecond)
	return w.PlainWriter.Write(b)
}

type ConcCase struct {
	Goroutines int `json:"goroutines"`
	Requests   int `json:"requests_each"`
}

func runBannerConcurrent(c *ConcCase) vh.Outcome {
	o := vh.Outcome{NonTrivial: true}
	wrapped := http.HandlerFunc(func(w http.ResponseWriter, r *http.Request) {
		w.Header().Set("Content-Type", "text/html")
		w.WriteHeader(200)
		w.Write([]byte("<html><head></head><body>original of " + r.URL.String() + "</body></html>"))
	})
	h, err := banner.Proxy(context.Background(), wrapped, bannerHTML, "40px", "https://static.example/fav.png", nil)
	if err != nil {
		o.Err = err
		return o
	}
	page := func(uri string, slow bool) []byte {
		r := httptest.NewRequest("GET", "http://app.example"+uri, nil)
		r.Header.Set("Accept", "text/html")
		pw := vh.NewPlainWriter()
		if slow {
			h.ServeHTTP(slowWriter{pw}, r)
		} else {
			h.ServeHTTP(pw, r)
		}
		return pw.Body.Bytes()
	}
	var mu sync.Mutex
	var firstErr error
	var wg sync.WaitGroup
	start := make(chan struct{})
	uriOf := func(g, k int) string {
		return fmt.Sprintf("/doc/%d/%s?q=%d&k=%d", g, strings.Repeat("x", (g*7+k)%40), g, k)
	}
	// reference: every page served on its own, before anything runs concurrently
	alone := map[string][]byte{}
	for g := 0; g < c.Goroutines; g++ {
		for k := 0; k < c.Requests; k++ {
			alone[uriOf(g, k)] = page(uriOf(g, k), false)
			if !bytes.Contains(alone[uriOf(g, k)], []byte(html.EscapeString(uriOf(g, k))+`"`)) {
				o.Inconclusive = "the frame page does not embed the requested URL even on its own"
				return o
			}
		}
	}
	for g := 0; g < c.Goroutines; g++ {
		g := g
		wg.Add(1)
		go func() {
			defer wg.Done()
			<-start
			for k := 0; k < c.Requests; k++ {
				uri := uriOf(g, k)
				mu.Lock()
				want := alone[uri]
				mu.Unlock()
				got := page(uri, true)
				if !bytes.Equal(got, want) {
					mu.Lock()
					if firstErr == nil {
						firstErr = fmt.Errorf("with %d framed requests in flight, the frame page served for %s differs from the page served for the same URL on its own: got ...%q, alone ...%q", c.Goroutines, uri, tailOf(got), tailOf(want))
					}
					mu.Unlock()
					return
				}
			}
		}()
	}
	close(start)
	wg.Wait()
	o.Err = firstErr
	return o
}

func tailOf(b []byte) string {
	if i := bytes.Index(b, []byte("<iframe")); i >= 0 {
		b = b[i:]
	}
	if len(b) > 300 {
		b = b[:300]
	}
	return string(b)
}

func TestPropBannerConcurrent(t *testing.T) {
	vh.Rapid(t, vh.Scale(40, 600), func(rt *rapid.T) {
		c := ConcCase{Goroutines: rapid.IntRange(8, 32).Draw(rt, "goroutines"), Requests: rapid.IntRange(5, 20).Draw(rt, "requests")}
		recC.Check(rt, &c, func() vh.Outcome { return runBannerConcurrent(&c) })
	})
}

func FuzzShimBody(f *testing.F) {
	f.Add([]byte("<html><head></head></html>"), "text/html", uint16(1024))
	f.Add([]byte(strings.Repeat("a", 1020)+"<head>"), "text/html", uint16(1022))
	f.Add([]byte("{}"), "application/json", uint16(1))
	f.Fuzz(func(t *testing.T, body []byte, ct string, first uint16) {
		for _, ch := range ct {
			if ch < 32 || ch > 126 {
				t.Skip()
			}
		}
		if shimFunc == nil {
			shimFunc, _ = websockets.ShimBody("shimpath")
		}
		sr := &segReader{data: append([]byte(nil), body...), reads: []int{int(first) + 1}, first: -1}
		resp := &http.Response{StatusCode: 200, Header: http.Header{"Content-Type": {ct}}, Body: sr}
		if err := shimFunc(resp); err != nil {
			t.Fatalf("error: %v", err)
		}
		got, _ := io.ReadAll(resp.Body)
		if !strings.Contains(strings.ToLower(ct), "html") {
			if !bytes.Equal(got, body) {
				t.Fatalf("non-HTML body altered")
			}
			return
		}
		if bytes.Equal(got, body) {
			return
		}
		idx := bytes.Index(body, []byte("<head>"))
		if idx < 0 {
			t.Fatalf("body without <head> altered")
		}
		cut := idx + 6
		if len(got) < len(body) || !bytes.Equal(got[:cut], body[:cut]) || !bytes.Equal(got[len(got)-(len(body)-cut):], body[cut:]) {
			t.Fatalf("not a splice after the first <head>")
		}
	})
}

func FuzzBanner(f *testing.F) {
	f.Add("GET", "text/html", "text/html", "", 200, "<html></html>")
	f.Add("GET", "text/html", "text/html", "attachment", 200, "x")
	f.Add("POST", "text/html", "text/html", "", 200, "x")
	f.Add("GET", "*/*", "application/json", "", 404, "{}")
	f.Fuzz(func(t *testing.T, method, accept, ctype, disp string, status int, body string) {
		if status < 200 || status > 599 {
			t.Skip()
		}
		for _, s := range []string{method, accept, ctype, disp} {
			for _, ch := range s {
				if ch < 33 && ch != ' ' || ch > 126 {
					t.Skip()
				}
			}
		}
		okMethod := false
		for _, m := range []string{"GET", "POST", "PUT", "HEAD", "DELETE", "OPTIONS", "PATCH"} {
			if method == m {
				okMethod = true
			}
		}
		if !okMethod {
			t.Skip()
		}
		c := BannerCase{Method: method, Accept: accept, Host: "app.example", Path: "/p", Status: status, Disposition: disp, Body: body, Explicit: true}
		if ctype != "" {
			c.ContentType = []string{ctype}
		}
		if o := runBanner(&c); o.Err != nil {
			t.Fatal(o.Err)
		}
	})
}

func TestReplay(t *testing.T) {
	var b BannerCase
	if ok, err := vh.ReplayCase("banner", &b); err != nil {
		t.Fatalf("INFRA: %v", err)
	} else if ok {
		recB.Check(t, &b, func() vh.Outcome { return runBanner(&b) })
		return
	}
	var s ShimCase
	if ok, _ := vh.ReplayCase("shim-script", &s); ok {
		recS.Check(t, &s, func() vh.Outcome { return runShim(&s) })
		return
	}
	var hc HistCase
	if ok, _ := vh.ReplayCase("banner-history", &hc); ok {
		recHist.Check(t, &hc, func() vh.Outcome { return runHist(&hc) })
		return
	}
	var cc ConcCase
	if ok, _ := vh.ReplayCase("banner-concurrent", &cc); ok {
		recC.Check(t, &cc, func() vh.Outcome { return runBannerConcurrent(&cc) })
		return
	}
	t.Skip("no replay for this package")
}
