// Package c03 checks property C03: the client receives the backend's response unaltered.
package c03

import (
	"bytes"
	"compress/gzip"
	"fmt"
	"net"
	"net/http"
	"sort"
	"strings"
	"sync"
	"testing"
	"time"

	"golang.org/x/net/http2"
	"golang.org/x/net/http2/h2c"
	"pgregory.net/rapid"
	"verif/harness/vh"
)

const rule = "backend responses from a grammar (0-2 interim 1xx, final status 200-599 incl. unregistered codes, 0-6 end-to-end " +
	"fields incl. 1-4 Set-Cookie and repeated/empty/long values, hop-by-hop fields, framing Content-Length/chunked/close-delimited, " +
	"body sizes around 1/4096/32768/1MiB, chunk sizes incl. 1-byte first chunk, 0-4 trailers declared jointly/separately/not at " +
	"all, pauses between writes, GET/POST/HEAD, 204/304) served by a scripted raw-TCP (or h2c) backend behind the real agent and " +
	"server binaries; non-trivial = trailers, interim, repeated field, body >= 4096, 1-byte first write or bodiless status/method; " +
	"distinct = SHA-256 of the canonical case"

var (
	rec1 = vh.NewRecorder("C03", "http1", rule+
		" Later additions: end-to-end field names resembling hop-by-hop ones (Proxy-Status, Proxy-Support, Proxy-Cache-Id, Upgrade-Hint, ...).")
	rec2 = vh.NewRecorder("C03", "h2c", rule+
		" Later additions: end-to-end field names resembling hop-by-hop ones (Proxy-Status, Proxy-Support, Proxy-Cache-Id, Upgrade-Hint, ...).")
	rec3 = vh.NewRecorder("C03", "http1-wrapped-agent", rule+
		" Here the agent runs with session tracking, websocket shim and banner injection enabled and the generated responses carry neither "+
		"Set-Cookie nor an HTML content type: the three features have nothing to do and must be transparent (only the agent's own session "+
		"cookie may be added).")
)

func TestMain(m *testing.M) { vh.Main(m, rec1, rec2, rec3, rec4) }

type Interim struct {
	Status int              `json:"status"`
	Fields []vh.HeaderField `json:"fields,omitempty"`
}

// RespCase is one generated backend response (and the request method that elicits it).
type RespCase struct {
	Method     string           `json:"method"`
	Interim    []Interim        `json:"interim,omitempty"`
	Status     int              `json:"status"`
	Fields     []vh.HeaderField `json:"fields"`
	Hop        []vh.HeaderField `json:"hop,omitempty"`
	Framing    string           `json:"framing"` // cl | chunked | close
	BodySize   int              `json:"body_size"`
	ChunkSizes []int            `json:"chunk_sizes,omitempty"`
	Trailers   []vh.HeaderField `json:"trailers,omitempty"`
	Declared   []bool           `json:"declared,omitempty"` // per trailer: announced in a Trailer field
	DeclJoin   bool             `json:"decl_join,omitempty"`
	PausesMs   []int            `json:"pauses_ms,omitempty"` // before head, between writes, before trailers
	// Gzip: the body is a gzip stream and the response says so (Content-Encoding: gzip). NoAcceptEncoding: the client's
	// request carries no Accept-Encoding field (otherwise "identity"); a relay must not decode the body either way.
	Gzip             bool `json:"gzip_body,omitempty"`
	NoAcceptEncoding bool `json:"no_accept_encoding,omitempty"`
	// Wrapped: the agent runs with session tracking, websocket shim and banner enabled. For responses that carry no
	// Set-Cookie and no HTML those features have nothing to do and must be transparent.
	Wrapped bool `json:"agent_with_sessions_shim_banner,omitempty"`
}

var (
	statuses   = []int{200, 200, 200, 201, 202, 203, 206, 226, 299, 300, 301, 302, 303, 307, 308, 399, 400, 401, 403, 404, 409, 410, 418, 429, 451, 499, 500, 501, 502, 503, 504, 599}
	singletons = []string{"Content-Type", "Location", "ETag", "Last-Modified", "Server", "Content-Language", "Content-Encoding",
		"Content-Disposition", "Accept-Ranges", "Age", "Expires", "Retry-After", "X-Frame-Options", "Content-Security-Policy", "Date",
		// end-to-end fields whose names merely resemble hop-by-hop ones
		"Proxy-Status", "Proxy-Support", "Connection-Id", "Keep-Alive-Info", "Upgrade-Hint", "Trailer-Info", "Te-Custom", "Transfer-Encoding-Hint", "Proxy-Cache-Id"}
	listFields = []string{"Set-Cookie", "Set-Cookie", "Vary", "Link", "WWW-Authenticate", "Cache-Control", "Warning", "Allow", "Via", "Access-Control-Allow-Headers"}
	hopFields  = [][2]string{{"Keep-Alive", "timeout=5, max=100"}, {"Proxy-Authenticate", "Basic realm=x"}, {"Upgrade", "foo/2"}, {"Connection", "keep-alive"}, {"TE", "trailers"}}
	trailerNms = []string{"X-Trailer-A", "X-Trailer-B", "x-trailer-c", "Grpc-Status", "Grpc-Message", "Server-Timing", "X-Checksum", "Digest"}
	sizes      = []int{0, 1, 2, 100, 4095, 4096, 4097, 5000, 32767, 32768, 32769, 65536, 200000, 1 << 20}
)

func genValue(t *rapid.T) string {
	switch rapid.IntRange(0, 9).Draw(t, "vkind") {
	case 0:
		return ""
	case 1:
		n := rapid.SampledFrom([]int{100, 1000, 4096, 8000}).Draw(t, "vlen")
		return strings.Repeat("v", n-1) + "!"
	case 2:
		return rapid.StringMatching(`[!-~]{1,6}([ \t]{1,3}[!-~]{1,6}){1,3}`).Draw(t, "vws")
	default:
		return rapid.StringMatching(`[!-~]{1,24}`).Draw(t, "v")
	}
}

func genCase(t *rapid.T, h2 bool) RespCase {
	var c RespCase
	c.Method = rapid.SampledFrom([]string{"GET", "GET", "GET", "GET", "POST", "POST", "HEAD"}).Draw(t, "method")
	c.Status = rapid.SampledFrom(statuses).Draw(t, "status")
	switch rapid.IntRange(0, 14).Draw(t, "special") {
	case 0:
		c.Status = 204
	case 1:
		c.Status = 304
	case 2:
		c.Status = rapid.IntRange(200, 599).Draw(t, "anyStatus")
		if c.Status == 205 {
			c.Status = 206
		}
	}
	ni := rapid.SampledFrom([]int{0, 0, 0, 1, 2}).Draw(t, "ninterim")
	for i := 0; i < ni; i++ {
		in := Interim{Status: rapid.SampledFrom([]int{100, 102, 103, 103}).Draw(t, "istatus")}
		if in.Status == 103 {
			in.Fields = append(in.Fields, vh.HeaderField{Name: "Link", Value: fmt.Sprintf("</style%d.css>; rel=preload", i)})
		}
		c.Interim = append(c.Interim, in)
	}
	nf := rapid.IntRange(0, 6).Draw(t, "nfields")
	used := map[string]bool{}
	for i := 0; i < nf; i++ {
		switch rapid.IntRange(0, 3).Draw(t, "fkind") {
		case 0:
			name := rapid.SampledFrom(singletons).Draw(t, "sname")
			if used[name] {
				continue
			}
			used[name] = true
			c.Fields = append(c.Fields, vh.HeaderField{Name: name, Value: genValue(t)})
		case 1:
			name := rapid.SampledFrom(listFields).Draw(t, "lname")
			k := rapid.IntRange(1, 4).Draw(t, "mult")
			for j := 0; j < k; j++ {
				v := genValue(t)
				if name == "Set-Cookie" {
					v = fmt.Sprintf("c%d=%s; Path=/", j, rapid.StringMatching(`[a-z0-9]{1,8}`).Draw(t, "cv"))
				}
				c.Fields = append(c.Fields, vh.HeaderField{Name: name, Value: v})
			}
		default:
			name := "X-" + rapid.StringMatching(`[A-Za-z][A-Za-z0-9-]{0,10}`).Draw(t, "cname")
			ln := strings.ToLower(name)
			if strings.HasPrefix(ln, "x-inverting-proxy") || strings.HasPrefix(ln, "x-verif") || strings.HasPrefix(ln, "x-trailer") {
				continue
			}
			k := rapid.IntRange(1, 3).Draw(t, "cmult")
			for j := 0; j < k; j++ {
				c.Fields = append(c.Fields, vh.HeaderField{Name: name, Value: genValue(t)})
			}
		}
	}
	nh := rapid.SampledFrom([]int{0, 0, 1, 2}).Draw(t, "nhop")
	for i := 0; i < nh && !h2; i++ {
		h := rapid.SampledFrom(hopFields).Draw(t, "hop")
		c.Hop = append(c.Hop, vh.HeaderField{Name: h[0], Value: h[1]})
	}
	c.Framing = rapid.SampledFrom([]string{"cl", "chunked", "chunked", "close"}).Draw(t, "framing")
	if rapid.IntRange(0, 3).Draw(t, "randSize") == 0 {
		c.BodySize = rapid.IntRange(0, 70000).Draw(t, "bodySize")
	} else {
		c.BodySize = rapid.SampledFrom(sizes).Draw(t, "bodySizeC")
	}
	if vh.Thorough() && rapid.IntRange(0, 60).Draw(t, "huge") == 0 {
		c.BodySize = rapid.SampledFrom([]int{8 << 20, 16<<20 + 1}).Draw(t, "hugeSize")
	}
	if c.Framing == "chunked" || h2 {
		c.ChunkSizes = rapid.SliceOfN(rapid.SampledFrom([]int{1, 1, 2, 7, 100, 1024, 4095, 4096, 4097, 32768, 100000}), 1, 8).Draw(t, "chunks")
		nt := rapid.SampledFrom([]int{0, 1, 2, 2, 3, 4}).Draw(t, "ntrailers")
		names := rapid.Permutation(trailerNms).Draw(t, "tnames")
		for i := 0; i < nt; i++ {
			name := names[i]
			k := rapid.SampledFrom([]int{1, 1, 1, 2}).Draw(t, "tmult")
			decl := rapid.IntRange(0, 3).Draw(t, "decl") != 0
			for j := 0; j < k; j++ {
				c.Trailers = append(c.Trailers, vh.HeaderField{Name: name, Value: rapid.StringMatching(`[!-~]{0,16}`).Draw(t, "tv")})
				c.Declared = append(c.Declared, decl)
			}
		}
		c.DeclJoin = rapid.Bool().Draw(t, "declJoin")
		if !h2 && len(c.Trailers) > 0 && rapid.IntRange(0, 3).Draw(t, "sameNameHeader") == 0 {
			// the same field name also as a header of the response (e.g. Server-Timing both up front and at the end)
			c.Fields = append(c.Fields, vh.HeaderField{Name: c.Trailers[0].Name, Value: "sent-as-header"})
		}
	}
	if rapid.IntRange(0, 3).Draw(t, "pauses") == 0 {
		c.PausesMs = rapid.SliceOfN(rapid.SampledFrom([]int{0, 1, 5, 20, 60}), 1, 4).Draw(t, "pausesMs")
	}
	c.NoAcceptEncoding = rapid.IntRange(0, 2).Draw(t, "noAcceptEncoding") == 0
	if rapid.IntRange(0, 5).Draw(t, "gzip") == 0 {
		c.Gzip = true
		if c.BodySize > 200000 {
			c.BodySize = 200000
		}
		var keep []vh.HeaderField
		for _, f := range c.Fields {
			if !strings.EqualFold(f.Name, "Content-Encoding") {
				keep = append(keep, f)
			}
		}
		c.Fields = append(keep, vh.HeaderField{Name: "Content-Encoding", Value: "gzip"})
	}
	return c
}

func (c *RespCase) bodiless() bool {
	return c.Method == "HEAD" || c.Status == 204 || c.Status == 304
}

func (c *RespCase) body() []byte {
	p := vh.Payload(fmt.Sprint("c03-", c.Status, c.BodySize), c.BodySize)
	if !c.Gzip {
		return p
	}
	var b bytes.Buffer
	zw := gzip.NewWriter(&b)
	zw.Write([]byte(strings.Repeat("compressible text of a gzip-encoded response. ", 1+c.BodySize/47)))
	zw.Write(p[:len(p)/8])
	zw.Close()
	return b.Bytes()
}

func (c *RespCase) acceptEncoding() string {
	if c.NoAcceptEncoding {
		return ""
	}
	return "Accept-Encoding: identity\r\n"
}

func (c *RespCase) declaredNames() []string {
	var names []string
	seen := map[string]bool{}
	for i, t := range c.Trailers {
		if c.Declared[i] && !seen[strings.ToLower(t.Name)] {
			seen[strings.ToLower(t.Name)] = true
			names = append(names, t.Name)
		}
	}
	return names
}

func (c *RespCase) pause(i int) {
	if len(c.PausesMs) == 0 {
		return
	}
	if ms := c.PausesMs[i%len(c.PausesMs)]; ms > 0 {
		time.Sleep(time.Duration(ms) * time.Millisecond)
	}
}

// serveRaw writes the scripted response to the connection, exactly as specified.
func (c *RespCase) serveRaw(conn net.Conn) bool {
	var b bytes.Buffer
	for _, in := range c.Interim {
		fmt.Fprintf(&b, "HTTP/1.1 %d %s\r\n", in.Status, reason(in.Status))
		for _, f := range in.Fields {
			fmt.Fprintf(&b, "%s: %s\r\n", f.Name, f.Value)
		}
		b.WriteString("\r\n")
		conn.Write(b.Bytes())
		b.Reset()
		c.pause(0)
	}
	fmt.Fprintf(&b, "HTTP/1.1 %d %s\r\n", c.Status, reason(c.Status))
	for i, f := range c.Fields {
		if i < len(c.Hop) {
			fmt.Fprintf(&b, "%s: %s\r\n", c.Hop[i].Name, c.Hop[i].Value)
		}
		fmt.Fprintf(&b, "%s: %s\r\n", f.Name, f.Value)
	}
	for i := len(c.Fields); i < len(c.Hop); i++ {
		fmt.Fprintf(&b, "%s: %s\r\n", c.Hop[i].Name, c.Hop[i].Value)
	}
	body := c.body()
	noBody := c.Status == 204 || c.Status == 304
	keep := true
	if !noBody {
		switch c.Framing {
		case "cl":
			fmt.Fprintf(&b, "Content-Length: %d\r\n", len(body))
		case "chunked":
			if dn := c.declaredNames(); len(dn) > 0 {
				if c.DeclJoin {
					fmt.Fprintf(&b, "Trailer: %s\r\n", strings.Join(dn, ", "))
				} else {
					for _, n := range dn {
						fmt.Fprintf(&b, "Trailer: %s\r\n", n)
					}
				}
			}
			b.WriteString("Transfer-Encoding: chunked\r\n")
		case "close":
			b.WriteString("Connection: close\r\n")
			keep = false
		}
	}
	b.WriteString("\r\n")
	conn.Write(b.Bytes())
	if noBody || c.Method == "HEAD" {
		return keep
	}
	c.pause(1)
	switch c.Framing {
	case "chunked":
		i := 0
		rest := body
		for len(rest) > 0 {
			n := len(rest)
			if i < len(c.ChunkSizes) {
				n = c.ChunkSizes[i]
			}
			if n > len(rest) {
				n = len(rest)
			}
			fmt.Fprintf(conn, "%x\r\n", n)
			conn.Write(rest[:n])
			conn.Write([]byte("\r\n"))
			rest = rest[n:]
			i++
			if i < 6 {
				c.pause(1 + i)
			}
		}
		c.pause(2)
		var tb bytes.Buffer
		tb.WriteString("0\r\n")
		for _, t := range c.Trailers {
			fmt.Fprintf(&tb, "%s: %s\r\n", t.Name, t.Value)
		}
		tb.WriteString("\r\n")
		conn.Write(tb.Bytes())
	default:
		// cl / close: body in up to three writes
		if len(body) > 1 {
			conn.Write(body[:1])
			c.pause(2)
			conn.Write(body[1:])
		} else {
			conn.Write(body)
		}
	}
	return keep
}

// serveH2 produces the same response through Go's HTTP/2 server API.
func (c *RespCase) serveH2(w http.ResponseWriter, r *http.Request) {
	for _, in := range c.Interim {
		if in.Status == 100 {
			continue // Go's h2 server does not let a handler emit 100 explicitly
		}
		for _, f := range in.Fields {
			w.Header().Add(f.Name, f.Value)
		}
		w.WriteHeader(in.Status)
		for _, f := range in.Fields {
			w.Header().Del(f.Name)
		}
		c.pause(0)
	}
	for _, f := range c.Fields {
		w.Header()[http.CanonicalHeaderKey(f.Name)] = append(w.Header()[http.CanonicalHeaderKey(f.Name)], f.Value)
	}
	body := c.body()
	noBody := c.Status == 204 || c.Status == 304
	if dn := c.declaredNames(); len(dn) > 0 && !noBody {
		if c.DeclJoin {
			w.Header().Add("Trailer", strings.Join(dn, ", "))
		} else {
			for _, n := range dn {
				w.Header().Add("Trailer", n)
			}
		}
	}
	if c.Framing == "cl" && !noBody {
		w.Header().Set("Content-Length", fmt.Sprint(len(body)))
	}
	if _, ok := w.Header()["Content-Type"]; !ok {
		w.Header()["Content-Type"] = nil // suppress sniffing by the backend itself
	}
	if _, ok := w.Header()["Date"]; !ok {
		w.Header()["Date"] = nil
	}
	w.WriteHeader(c.Status)
	fl, _ := w.(http.Flusher)
	fl.Flush()
	if noBody || c.Method == "HEAD" {
		return
	}
	c.pause(1)
	i := 0
	rest := body
	for len(rest) > 0 {
		n := len(rest)
		if i < len(c.ChunkSizes) {
			n = c.ChunkSizes[i]
		}
		if n > len(rest) {
			n = len(rest)
		}
		w.Write(rest[:n])
		fl.Flush()
		rest = rest[n:]
		i++
		if i < 6 {
			c.pause(1 + i)
		}
	}
	c.pause(2)
	declared := map[string]bool{}
	for _, n := range c.declaredNames() {
		declared[strings.ToLower(n)] = true
	}
	for _, t := range c.Trailers {
		k := http.CanonicalHeaderKey(t.Name)
		if !declared[strings.ToLower(t.Name)] {
			k = http.TrailerPrefix + k
		}
		w.Header()[k] = append(w.Header()[k], t.Value)
	}
}

func reason(code int) string {
	if s := http.StatusText(code); s != "" {
		return s
	}
	return "Custom Reason"
}

func classify(c *RespCase) (bool, []string) {
	var cl []string
	nt := false
	for _, f := range c.Fields {
		if len(c.Trailers) > 0 && f.Value == "sent-as-header" && !c.bodiless() {
			cl = append(cl, "field-both-header-and-trailer")
			nt = true
		}
	}
	if c.Gzip {
		cl = append(cl, "gzip-encoded-body")
		if c.NoAcceptEncoding {
			cl = append(cl, "gzip-encoded-body-for-a-request-without-accept-encoding")
			nt = true
		}
	}
	if len(c.Trailers) > 0 && !c.bodiless() {
		cl = append(cl, "trailers")
		nt = true
		decl, undecl := 0, 0
		for _, d := range c.Declared {
			if d {
				decl++
			} else {
				undecl++
			}
		}
		if decl > 0 {
			cl = append(cl, "declared-trailer")
		}
		if undecl > 0 {
			cl = append(cl, "undeclared-trailer")
		}
		if len(c.declaredNames()) >= 2 && c.DeclJoin {
			cl = append(cl, "comma-joined-trailer-declaration")
		}
	}
	if len(c.Interim) > 0 {
		cl = append(cl, "interim-1xx")
		nt = true
	}
	seen := map[string]int{}
	for _, f := range c.Fields {
		seen[strings.ToLower(f.Name)]++
	}
	for n, k := range seen {
		if k > 1 {
			cl = append(cl, "repeated-field")
			if n == "set-cookie" {
				cl = append(cl, "repeated-set-cookie")
			}
			nt = true
		}
	}
	if c.bodiless() {
		cl = append(cl, "bodiless")
		nt = true
	} else {
		if c.BodySize >= 4096 {
			cl = append(cl, "body>=4096")
			nt = true
		}
		if c.BodySize >= 1<<20 {
			cl = append(cl, "body>=1MiB")
		}
		if len(c.ChunkSizes) > 0 && c.ChunkSizes[0] == 1 && c.BodySize > 1 {
			cl = append(cl, "1-byte-first-chunk")
			nt = true
		}
		cl = append(cl, "framing-"+c.Framing)
	}
	if len(c.Hop) > 0 {
		cl = append(cl, "hop-by-hop")
	}
	if len(c.PausesMs) > 0 {
		cl = append(cl, "pauses")
	}
	if c.Status >= 500 {
		cl = append(cl, "5xx")
	} else if c.Status >= 400 {
		cl = append(cl, "4xx")
	} else if c.Status >= 300 {
		cl = append(cl, "3xx")
	}
	return nt, cl
}

// fields the hop may legitimately add, re-frame or drop
var framingNames = map[string]bool{"content-length": true, "transfer-encoding": true, "trailer": true, "connection": true}
var hopAbsent = []string{"Keep-Alive", "Proxy-Authenticate", "Upgrade", "Te", "Proxy-Connection"}

func compare(c *RespCase, resp *vh.RawResponse) error {
	if resp.Status != c.Status {
		return fmt.Errorf("status altered: backend sent %d, client received %d", c.Status, resp.Status)
	}
	sent := map[string][]string{}
	var order []string
	for _, f := range c.Fields {
		k := http.CanonicalHeaderKey(f.Name)
		if _, ok := sent[k]; !ok {
			order = append(order, k)
		}
		sent[k] = append(sent[k], f.Value)
	}
	for _, k := range order {
		if framingNames[strings.ToLower(k)] {
			continue
		}
		if c.bodiless() && strings.HasPrefix(k, "Content-") {
			continue // entity headers may be omitted for HEAD/204/304
		}
		have := resp.Header[k]
		want := sent[k]
		if len(have) != len(want) || strings.Join(have, "\x00") != strings.Join(want, "\x00") {
			return fmt.Errorf("end-to-end field %q altered: backend sent %q, client received %q", k, trunc(want), trunc(have))
		}
	}
	// nothing invented: every field at the client is one the backend sent, or one the hop may add
	var keys []string
	for k := range resp.Header {
		keys = append(keys, k)
	}
	sort.Strings(keys)
	for _, k := range keys {
		lk := strings.ToLower(k)
		if framingNames[lk] {
			continue
		}
		if _, ok := sent[k]; ok {
			continue
		}
		if lk == "date" || lk == "content-type" {
			continue // added by the front hop's own HTTP server when the backend sent none
		}
		if c.Wrapped && lk == "set-cookie" && len(resp.Header[k]) == 1 && strings.HasPrefix(resp.Header[k][0], "agent-session=") {
			continue // the agent's own session cookie (property C10)
		}
		return fmt.Errorf("client received field %q: %q which the backend never sent as a header (interim/trailer data leaked or invented)", k, trunc(resp.Header[k]))
	}
	for _, hn := range hopAbsent {
		if v := resp.Header.Values(hn); len(v) > 0 {
			return fmt.Errorf("hop-by-hop field %s reached the client with values %q", hn, v)
		}
	}
	if resp.BodyErr != nil {
		return fmt.Errorf("client could not read the body: %v (got %d bytes)", resp.BodyErr, len(resp.Body))
	}
	want := c.body()
	if c.bodiless() {
		want = nil
	}
	if !bytes.Equal(resp.Body, want) {
		return fmt.Errorf("body altered: backend sent %d bytes (hash %s), client received %d bytes (hash %s)",
			len(want), vh.HashBytes(want), len(resp.Body), vh.HashBytes(resp.Body))
	}
	// trailers
	wantT := map[string][]string{}
	if !c.bodiless() {
		for _, t := range c.Trailers {
			k := http.CanonicalHeaderKey(t.Name)
			wantT[k] = append(wantT[k], t.Value)
		}
	}
	haveT := map[string][]string{}
	for k, v := range resp.Trailer {
		if len(v) > 0 {
			haveT[k] = v
		}
	}
	for k, want := range wantT {
		have := haveT[k]
		if len(have) != len(want) || strings.Join(have, "\x00") != strings.Join(want, "\x00") {
			return fmt.Errorf("trailer %q altered: backend sent %q, client received %q (all client trailers: %v)", k, want, have, haveT)
		}
	}
	for k, v := range haveT {
		if _, ok := wantT[k]; !ok {
			return fmt.Errorf("client received trailer %q: %q which the backend never sent", k, v)
		}
	}
	return nil
}

func trunc(vs []string) []string {
	out := make([]string, len(vs))
	for i, v := range vs {
		if len(v) > 80 {
			v = v[:40] + "…" + v[len(v)-20:]
		}
		out[i] = v
	}
	return out
}

// stacks ------------------------------------------------------------------

var (
	once1, once2 sync.Once
	e1           *vh.E2E
	err1         error
	h2           *h2Stack
	err2         error
)

func stack1(t vh.TB) *vh.E2E {
	once1.Do(func() { e1, err1 = vh.NewE2E(nil) })
	if err1 != nil {
		t.Fatalf("INFRA: cannot start stack: %v", err1)
	}
	return e1
}

var (
	once3 sync.Once
	e3    *vh.E2E
	err3  error
)

func stack3(t vh.TB) *vh.E2E {
	once3.Do(func() {
		e3, err3 = vh.NewE2E([]string{"--session-cookie-name=agent-session", "--disable-ssl-for-test", "--shim-websockets", "--shim-path=shim",
			"--debug", "--favicon-url=https://example.com/favicon.ico", "--banner-height=50px", "--enable-websockets-injection", "--rewrite-websocket-host",
			"--session-cookie-timeout=1h", "--session-cookie-cache-limit=100", "--proxy-timeout=90s", "--disable-gce-vm-header", "--graceful-shutdown-timeout=1s",
			"--inject-banner=<b>verif banner</b>"})
	})
	if err3 != nil {
		t.Fatalf("INFRA: cannot start stack: %v", err3)
	}
	return e3
}

func runCase3(t vh.TB, c *RespCase) vh.Outcome {
	return vh.Confirm(func(mult int) vh.Outcome { return stack3(t).Stack.Discount(runCaseOn(stack3(t), t, c, mult)) })
}

func runCase1(t vh.TB, c *RespCase) vh.Outcome {
	return vh.Confirm(func(mult int) vh.Outcome { return stack1(t).Stack.Discount(runCase1Once(t, c, mult)) })
}

func runCase1Once(t vh.TB, c *RespCase, mult int) vh.Outcome { return runCaseOn(stack1(t), t, c, mult) }

func runCaseOn(e *vh.E2E, t vh.TB, c *RespCase, mult int) vh.Outcome {
	nt, classes := classify(c)
	o := vh.Outcome{NonTrivial: nt, Classes: classes}
	tok := e.NewToken()
	e.Handle(tok, func(rq *vh.RawRequest, conn net.Conn) bool { return c.serveRaw(conn) })
	req := fmt.Sprintf("%s /c03 HTTP/1.1\r\nHost: c03.example\r\n%s%s: %s\r\n", c.Method, c.acceptEncoding(), vh.TokenHeader, tok)
	if c.Wrapped {
		req += "Accept: text/html,application/xhtml+xml,*/*;q=0.8\r\n" // a browser navigation: the banner handler looks at the response
	}
	if c.Method == "POST" {
		req += "Content-Length: 3\r\n\r\nabc"
	} else {
		req += "\r\n"
	}
	timeout := time.Duration(mult) * (20*time.Second + time.Duration(c.BodySize/(1<<20))*2*time.Second)
	resp, err := vh.RawRoundTrip(e.Stack.ProxyAddr, []byte(req), c.Method, timeout)
	got := e.Seen(tok)
	if herr := e.Stack.Health(); herr != nil {
		o.Err = fmt.Errorf("while relaying a response: %v", herr)
		if fl := e.Stack.Agent.Flags(); len(fl) > 0 {
			o.Signature = vh.RaceSignature(fl[0])
		}
		e.Restart()
		return o
	}
	if err != nil {
		o.Err = fmt.Errorf("client got no response (backend saw %d requests): %v", len(got), err)
		o.TimedOut = vh.IsTimeout(err)
		return o
	}
	if err := compare(c, resp); err != nil {
		o.Err = err
		o.TimedOut = vh.IsTimeout(resp.BodyErr)
	}
	return o
}

type h2Stack struct {
	ln    net.Listener
	stack *vh.Stack
	mu    sync.Mutex
	cases map[string]*RespCase
	ctr   int
}

func stack2(t vh.TB) *h2Stack {
	once2.Do(func() {
		s := &h2Stack{cases: map[string]*RespCase{}}
		ln, err := net.Listen("tcp", "127.0.0.1:0")
		if err != nil {
			err2 = err
			return
		}
		s.ln = ln
		handler := http.HandlerFunc(func(w http.ResponseWriter, r *http.Request) {
			s.mu.Lock()
			c := s.cases[r.Header.Get(vh.TokenHeader)]
			s.mu.Unlock()
			if c == nil {
				w.WriteHeader(200)
				return
			}
			c.serveH2(w, r)
		})
		srv := &http.Server{Handler: h2c.NewHandler(handler, &http2.Server{})}
		go srv.Serve(ln)
		s.stack, err2 = vh.StartStack(ln.Addr().String(), []string{"--force-http2"})
		if err2 != nil {
			return
		}
		deadline := time.Now().Add(30 * time.Second)
		for time.Now().Before(deadline) {
			r, err := vh.RawRoundTrip(s.stack.ProxyAddr, []byte("GET /warmup HTTP/1.1\r\nHost: warm.up\r\n\r\n"), "GET", 3*time.Second)
			if err == nil && r.Status == 200 {
				h2 = s
				return
			}
			time.Sleep(50 * time.Millisecond)
		}
		err2 = fmt.Errorf("h2c stack did not come up: %s", s.stack.Agent.Tail(10))
	})
	if err2 != nil {
		t.Fatalf("INFRA: cannot start h2c stack: %v", err2)
	}
	return h2
}

func runCase2(t vh.TB, c *RespCase) vh.Outcome {
	return vh.Confirm(func(mult int) vh.Outcome { return stack2(t).stack.Discount(runCase2Once(t, c, mult)) })
}

func runCase2Once(t vh.TB, c *RespCase, mult int) vh.Outcome {
	s := stack2(t)
	nt, classes := classify(c)
	o := vh.Outcome{NonTrivial: nt, Classes: classes}
	s.mu.Lock()
	s.ctr++
	tok := fmt.Sprintf("h2-%d", s.ctr)
	s.cases[tok] = c
	s.mu.Unlock()
	defer func() {
		s.mu.Lock()
		delete(s.cases, tok)
		s.mu.Unlock()
	}()
	req := fmt.Sprintf("%s /c03 HTTP/1.1\r\nHost: c03.example\r\n%s%s: %s\r\n", c.Method, c.acceptEncoding(), vh.TokenHeader, tok)
	if c.Method == "POST" {
		req += "Content-Length: 3\r\n\r\nabc"
	} else {
		req += "\r\n"
	}
	timeout := time.Duration(mult) * (20*time.Second + time.Duration(c.BodySize/(1<<20))*2*time.Second)
	resp, err := vh.RawRoundTrip(s.stack.ProxyAddr, []byte(req), c.Method, timeout)
	if herr := s.stack.Health(); herr != nil {
		o.Err = fmt.Errorf("while relaying an h2c response: %v", herr)
		if fl := s.stack.Agent.Flags(); len(fl) > 0 {
			o.Signature = vh.RaceSignature(fl[0])
		}
		return o
	}
	if err != nil {
		o.Err = fmt.Errorf("client got no response from the h2c backend: %v", err)
		o.TimedOut = vh.IsTimeout(err)
		return o
	}
	if err := compare(c, resp); err != nil {
		o.Err = fmt.Errorf("h2c backend: %v", err)
		o.TimedOut = vh.IsTimeout(resp.BodyErr)
	}
	return o
}

func cleanup() {
	if e1 != nil {
		e1.Close()
	}
	if h2 != nil {
		h2.stack.Stop()
		h2.ln.Close()
	}
	if e3 != nil {
		e3.Close()
	}
}

func TestPropResponseRoundTripHTTP1(t *testing.T) {
	defer cleanup()
	vh.Rapid(t, vh.Scale(1500, 30000), func(rt *rapid.T) {
		c := genCase(rt, false)
		rec1.Check(rt, &c, func() vh.Outcome { return runCase1(rt, &c) })
	})
}

// wrapCase restricts a generated response to those the session, shim and banner features have to leave alone.
func wrapCase(c *RespCase) {
	c.Wrapped = true
	var keep []vh.HeaderField
	for _, f := range c.Fields {
		if strings.EqualFold(f.Name, "Set-Cookie") || (strings.EqualFold(f.Name, "Content-Type") && strings.Contains(strings.ToLower(f.Value), "html")) {
			continue
		}
		keep = append(keep, f)
	}
	c.Fields = keep
}

func TestPropResponseRoundTripWrapped(t *testing.T) {
	defer cleanup()
	vh.Rapid(t, vh.Scale(400, 8000), func(rt *rapid.T) {
		c := genCase(rt, false)
		wrapCase(&c)
		rec3.Check(rt, &c, func() vh.Outcome { return runCase3(rt, &c) })
	})
}

func TestPropResponseRoundTripH2C(t *testing.T) {
	defer cleanup()
	vh.Rapid(t, vh.Scale(500, 10000), func(rt *rapid.T) {
		c := genCase(rt, true)
		rec2.Check(rt, &c, func() vh.Outcome { return runCase2(rt, &c) })
	})
}

func TestReplay(t *testing.T) {
	defer cleanup()
	var c RespCase
	if ok, _ := vh.ReplayCase("http1-wrapped-agent", &c); ok {
		for i := 0; i < vh.ReplayRuns(); i++ {
			rec3.Check(t, &c, func() vh.Outcome { return runCase3(t, &c) })
		}
		return
	}
	if ok, err := vh.ReplayCase("http1", &c); err != nil {
		t.Fatalf("INFRA: %v", err)
	} else if ok {
		for i := 0; i < vh.ReplayRuns(); i++ {
			rec1.Check(t, &c, func() vh.Outcome { return runCase1(t, &c) })
		}
		return
	}
	if ok, _ := vh.ReplayCase("h2c", &c); ok {
		for i := 0; i < vh.ReplayRuns(); i++ {
			rec2.Check(t, &c, func() vh.Outcome { return runCase2(t, &c) })
		}
		return
	}
	t.Skip("no replay for this package")
}
