package c03

import (
	"fmt"
	"net"
	"sync"
	"testing"
	"time"

	"pgregory.net/rapid"
	"verif/harness/vh"
)

// Fourth part: the relay breaks while a response is on its way (the agent process is killed after the first part of
// the body). The client cannot get the whole response then, but what it gets must not look like one.
var rec4 = vh.NewRecorder("C03", "relay-cut-mid-response",
	"server and agent binaries; the backend sends the head and the first 0-64 KiB of a chunked or length-framed body, the agent "+
		"process is killed, and the backend would have sent 1 byte-64 KiB more; oracle: the client either gets no complete response "+
		"(connection error, unexpected end of the body) or the whole body - never a response that ends regularly with only part of "+
		"the body; non-trivial = every case; distinct = SHA-256 of the canonical case")

type CutCase struct {
	First   int    `json:"bytes_before_the_cut"`
	Rest    int    `json:"bytes_never_relayed"`
	Framing string `json:"framing"` // chunked | cl
	Status  int    `json:"status"`
}

func runCut(t vh.TB, c *CutCase) (o vh.Outcome) {
	o.NonTrivial = true
	e, err := vh.NewE2E(nil)
	if err != nil {
		o.Inconclusive = "cannot start stack: " + err.Error()
		return
	}
	defer e.Close()
	tok := e.NewToken()
	total := c.First + c.Rest
	body := vh.Payload("cut-"+tok, total)
	atPause := make(chan struct{})
	var once sync.Once
	killed := make(chan struct{})
	e.Handle(tok, func(rq *vh.RawRequest, conn net.Conn) bool {
		head := fmt.Sprintf("HTTP/1.1 %d X\r\nContent-Type: application/octet-stream\r\n", c.Status)
		if c.Framing == "cl" {
			fmt.Fprintf(conn, "%sContent-Length: %d\r\n\r\n", head, total)
			conn.Write(body[:c.First])
		} else {
			fmt.Fprintf(conn, "%sTransfer-Encoding: chunked\r\n\r\n", head)
			if c.First > 0 {
				fmt.Fprintf(conn, "%x\r\n", c.First)
				conn.Write(body[:c.First])
				conn.Write([]byte("\r\n"))
			}
		}
		time.Sleep(300 * time.Millisecond) // let the first part travel
		once.Do(func() { close(atPause) })
		<-killed
		return false
	})
	type res struct {
		r   *vh.RawResponse
		err error
	}
	done := make(chan res, 1)
	go func() {
		req := fmt.Sprintf("GET /c03-cut HTTP/1.1\r\nHost: c03.example\r\nAccept-Encoding: identity\r\n%s: %s\r\n\r\n", vh.TokenHeader, tok)
		r, err := vh.RawRoundTrip(e.Stack.ProxyAddr, []byte(req), "GET", 30*time.Second)
		done <- res{r, err}
	}()
	select {
	case <-atPause:
	case <-time.After(20 * time.Second):
		close(killed)
		o.Inconclusive = "the request did not reach the backend"
		return
	}
	e.Stack.Agent.Stop() // SIGKILL: the upload of the response breaks off
	close(killed)
	var x res
	select {
	case x = <-done:
	case <-time.After(40 * time.Second):
		o.Classes = append(o.Classes, "client-left-waiting")
		return // (the client is not answered at all: not a complete-looking response either)
	}
	if x.err != nil || x.r == nil {
		o.Classes = append(o.Classes, "client-got-an-error")
		return
	}
	if x.r.BodyErr != nil {
		o.Classes = append(o.Classes, "client-saw-the-body-break-off")
		return
	}
	if x.r.Status != c.Status {
		o.Classes = append(o.Classes, "client-got-an-error-status")
		return
	}
	if len(x.r.Body) < total {
		o.Err = fmt.Errorf("the relay broke after %d of %d body bytes (agent killed), yet the client received status %d and a body of %d bytes that ends regularly: a truncated response that looks complete",
			c.First, total, x.r.Status, len(x.r.Body))
	}
	return
}

func TestPropRelayCut(t *testing.T) {
	vh.Rapid(t, vh.Scale(3, 40), func(rt *rapid.T) {
		c := CutCase{
			First:   rapid.SampledFrom([]int{8192, 0, 100, 65536, 4096}).Draw(rt, "first"),
			Rest:    rapid.SampledFrom([]int{8192, 1, 65536}).Draw(rt, "rest"),
			Framing: rapid.SampledFrom([]string{"chunked", "cl"}).Draw(rt, "framing"),
			Status:  rapid.SampledFrom([]int{200, 200, 404}).Draw(rt, "status"),
		}
		rec4.Check(rt, &c, func() vh.Outcome { return runCut(rt, &c) })
	})
}

func TestReplayRelayCut(t *testing.T) {
	var c CutCase
	if ok, _ := vh.ReplayCase("relay-cut-mid-response", &c); !ok {
		t.Skip("no replay for this part")
	}
	rec4.Check(t, &c, func() vh.Outcome { return runCut(t, &c) })
}
