package c16

import (
	"bytes"
	"fmt"
	"net"
	"sync"
	"testing"
	"time"

	"pgregory.net/rapid"
	"verif/harness/vh"
)

// Second part: the receiving peer is alive but does not read for a while (longer than any plausible I/O time-out
// inside the bridge), while the sender writes more than the socket buffers hold and then closes.
var recS = vh.NewRecorder("C16", "stalled-reader",
	"3 bridged connections at a time: the client or the server writes 8-32 MiB and closes, the other peer starts reading "+
		"only 11-13 s later (back-pressure through both bridge processes in between); oracle: the late reader receives every "+
		"byte written before the close and then end-of-stream, and the writer's writes do not fail; non-trivial = every case; "+
		"distinct = SHA-256 of the canonical case")

type Stall struct {
	Sender string `json:"sender"` // client | server
	MiB    int    `json:"mib"`
	StallS int    `json:"reader_idle_s"`
}

type StallCase struct {
	Conns []Stall `json:"conns"`
}

func runStall(r *rig, i int, s Stall) error {
	rigMu.Lock()
	ctr++
	id := fmt.Sprintf("stal-%011d", ctr)
	rigMu.Unlock()
	ch := make(chan net.Conn, 1)
	r.mu.Lock()
	r.wait[id] = ch
	r.mu.Unlock()
	defer func() {
		r.mu.Lock()
		delete(r.wait, id)
		r.mu.Unlock()
	}()
	cl, err := net.DialTimeout("tcp", r.bridge.FrontAddr, 10*time.Second)
	if err != nil {
		return fmt.Errorf("connection %d: cannot connect to the bridge frontend: %v", i, err)
	}
	defer cl.Close()
	cl.Write([]byte(id))
	var sv net.Conn
	select {
	case sv = <-ch:
	case <-time.After(20 * time.Second):
		return fmt.Errorf("connection %d: the bridged connection was not established", i)
	}
	defer sv.Close()
	from, to := cl, sv
	if s.Sender == "server" {
		from, to = sv, cl
	}
	data := vh.Payload(id, s.MiB<<20)
	werr := make(chan error, 1)
	go func() {
		_, e := from.Write(data)
		if e == nil {
			if tc, ok := from.(*net.TCPConn); ok {
				e = tc.CloseWrite() // everything written; nothing more will follow
			}
		}
		werr <- e
	}()
	time.Sleep(time.Duration(s.StallS) * time.Second)
	got, ended, rerr := readUntilEOS(to, 60*time.Second)
	select {
	case e := <-werr:
		if e != nil {
			return fmt.Errorf("connection %d: the %s's write of %d MiB failed (%v) although the other peer was alive and merely started reading %ds later", i, s.Sender, s.MiB, e, s.StallS)
		}
	case <-time.After(30 * time.Second):
		return fmt.Errorf("connection %d: the %s's write of %d MiB was still blocked 30s after the other peer had read everything it was given (%d bytes)", i, s.Sender, s.MiB, len(got))
	}
	if !ended {
		return fmt.Errorf("connection %d: the %s wrote %d MiB and closed; the other peer, reading from %ds later, saw no end-of-stream within 60s (%d bytes read)", i, s.Sender, s.MiB, s.StallS, len(got))
	}
	if !bytes.Equal(got, data) {
		return fmt.Errorf("connection %d: the %s wrote %d bytes and closed; the other peer, which started reading %ds later, received %d bytes before end-of-stream (%v)", i, s.Sender, len(data), s.StallS, len(got), rerr)
	}
	return nil
}

func runStallCase(t vh.TB, c *StallCase) vh.Outcome {
	r := getRig(t)
	o := vh.Outcome{NonTrivial: true}
	errs := make([]error, len(c.Conns))
	var wg sync.WaitGroup
	for i := range c.Conns {
		i := i
		o.Classes = append(o.Classes, "sender-"+c.Conns[i].Sender)
		wg.Add(1)
		go func() {
			defer wg.Done()
			errs[i] = runStall(r, i, c.Conns[i])
		}()
	}
	wg.Wait()
	if err := r.bridge.Health(); err != nil {
		o.Err = err
		closeRig()
		return o
	}
	for _, e := range errs {
		if e != nil {
			o.Err = e
			break
		}
	}
	return o
}

func TestPropStalledReader(t *testing.T) {
	defer closeRig()
	vh.Rapid(t, vh.Scale(1, 8), func(rt *rapid.T) {
		var c StallCase
		for i := 0; i < 3; i++ {
			c.Conns = append(c.Conns, Stall{
				Sender: rapid.SampledFrom([]string{"server", "client"}).Draw(rt, "sender"),
				MiB:    rapid.SampledFrom([]int{16, 8, 32}).Draw(rt, "mib"),
				StallS: rapid.SampledFrom([]int{11, 13}).Draw(rt, "stall"),
			})
		}
		recS.Check(rt, &c, func() vh.Outcome { return runStallCase(rt, &c) })
	})
}

func TestReplayStalledReader(t *testing.T) {
	defer closeRig()
	var c StallCase
	if ok, _ := vh.ReplayCase("stalled-reader", &c); !ok {
		t.Skip("no replay for this part")
	}
	recS.Check(t, &c, func() vh.Outcome { return runStallCase(t, &c) })
}
