package c16

import (
	"bytes"
	"fmt"
	"net"
	"sync"
	"testing"
	"time"

	"pgregory.net/rapid"
	"verif/harness/vh"
)

// Second part: the receiving peer is alive but does not read for a while (longer than any plausible I/O time-out
// inside the bridge), while the sender writes more than the socket buffers hold and then closes.
var recS = vh.NewRecorder("C16", "stalled-reader",
	"3 bridged connections at a time: the client or the server writes 8-32 MiB and closes, the other peer starts reading "+
		"only 11-13 s later and then at full speed or pausing 1-3 ms per 32 KiB (back-pressure through both bridge processes in between); oracle: the late reader receives every "+
		"byte written before the close and then end-of-stream, and the writer's writes do not fail; non-trivial = every case; "+
		"distinct = SHA-256 of the canonical case")

type Stall struct {
	Sender  string `json:"sender"` // client | server
	MiB     int    `json:"mib"`
	StallS  int    `json:"reader_idle_s"`
	PauseUs int    `json:"reader_pause_us,omitempty"` // pause after every read of up to 32 KiB once the reader has started
}

type StallCase struct {
	Conns []Stall `json:"conns"`
}

func runStall(r *rig, i int, s Stall) error {
	rigMu.Lock()
	ctr++
	id := fmt.Sprintf("stal-%011d", ctr)
	rigMu.Unlock()
	ch := make(chan net.Conn, 1)
	r.mu.Lock()
	r.wait[id] = ch
	r.mu.Unlock()
	defer func() {
		r.mu.Lock()
		delete(r.wait, id)
		r.mu.Unlock()
	}()
	cl, err := net.DialTimeout("tcp", r.bridge.FrontAddr, 10*time.Second)
	if err != nil {
		return fmt.Errorf("connection %d: cannot connect to the bridge frontend: %v", i, err)
	}
	defer cl.Close()
	cl.Write([]byte(id))
	var sv net.Conn
	select {
	case sv = <-ch:
	case <-time.After(20 * time.Second):
		return fmt.Errorf("connection %d: the bridged connection was not established", i)
	}
	defer sv.Close()
	from, to := cl, sv
	if s.Sender == "server" {
		from, to = sv, cl
	}
	data := vh.Payload(id, s.MiB<<20)
	werr := make(chan error, 1)
	go func() {
		_, e := from.Write(data)
		if e == nil {
			if tc, ok := from.(*net.TCPConn); ok {
				e = tc.CloseWrite() // everything written; nothing more will follow
			}
		}
		werr <- e
	}()
	time.Sleep(time.Duration(s.StallS) * time.Second)
	got, ended, rerr := readSlowlyUntilEOS(to, 90*time.Second, time.Duration(s.PauseUs)*time.Microsecond)
	select {
	case e := <-werr:
		if e != nil {
			return fmt.Errorf("connection %d: the %s's write of %d MiB failed (%v) although the other peer was alive and merely started reading %ds later", i, s.Sender, s.MiB, e, s.StallS)
		}
	case <-time.After(30 * time.Second):
		return fmt.Errorf("connection %d: the %s's write of %d MiB was still blocked 30s after the other peer had read everything it was given (%d bytes)", i, s.Sender, s.MiB, len(got))
	}
	if !ended {
		return fmt.Errorf("connection %d: the %s wrote %d MiB and closed; the other peer, reading from %ds later, saw no end-of-stream within 60s (%d bytes read)", i, s.Sender, s.MiB, s.StallS, len(got))
	}
	if !bytes.Equal(got, data) {
		return fmt.Errorf("connection %d: the %s wrote %d bytes and closed; the other peer, which started reading %ds later, received %d bytes before end-of-stream (%v)", i, s.Sender, len(data), s.StallS, len(got), rerr)
	}
	return nil
}

func runStallCase(t vh.TB, c *StallCase) vh.Outcome {
	r := getRig(t)
	o := vh.Outcome{NonTrivial: true}
	errs := make([]error, len(c.Conns))
	var wg sync.WaitGroup
	for i := range c.Conns {
		i := i
		o.Classes = append(o.Classes, "sender-"+c.Conns[i].Sender)
		wg.Add(1)
		go func() {
			defer wg.Done()
			errs[i] = runStall(r, i, c.Conns[i])
		}()
	}
	wg.Wait()
	if err := r.bridge.Health(); err != nil {
		o.Err = err
		closeRig()
		return o
	}
	for _, e := range errs {
		if e != nil {
			o.Err = e
			break
		}
	}
	return o
}

func TestPropStalledReader(t *testing.T) {
	defer closeRig()
	vh.Rapid(t, vh.Scale(1, 8), func(rt *rapid.T) {
		var c StallCase
		for i := 0; i < 3; i++ {
			c.Conns = append(c.Conns, Stall{
				Sender:  []string{"client", "server", rapid.SampledFrom([]string{"server", "client"}).Draw(rt, "sender")}[i],
				PauseUs: rapid.SampledFrom([]int{0, 1000, 3000}).Draw(rt, "pause"),
				MiB:     rapid.SampledFrom([]int{16, 8, 32}).Draw(rt, "mib"),
				StallS:  rapid.SampledFrom([]int{11, 13}).Draw(rt, "stall"),
			})
		}
		recS.Check(rt, &c, func() vh.Outcome { return runStallCase(rt, &c) })
	})
}

func TestReplayStalledReader(t *testing.T) {
	defer closeRig()
	var c StallCase
	if ok, _ := vh.ReplayCase("stalled-reader", &c); !ok {
		t.Skip("no replay for this part")
	}
	recS.Check(t, &c, func() vh.Outcome { return runStallCase(t, &c) })
}
