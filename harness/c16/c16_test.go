// Package c16 checks property C16: closing one end of a bridged TCP connection closes the other.
package c16

import (
	"bytes"
	"fmt"
	"io"
	"net"
	"os"
	"sync"
	"testing"
	"time"

	"pgregory.net/rapid"
	"verif/harness/vh"
)

var rec = vh.NewRecorder("C16", "close-propagation",
	"histories of 1-20 bridged connections through the tcp-bridge-frontend/-backend binaries, each with a closer (client or server), byte "+
		"counts in both directions (0..200000), a close mode {clean: the closer has read everything sent to it and the far side is quiescent, "+
		"then writes its data (up to 6 MiB, with the far peer reading late and slowly in a third of these) and closes at once; dirty: the closer closes while the far side is still writing towards it; dirty-quiet: the closer closes with unread input (so its close is a reset) while the far side stays silent; target-down: the bridge's target port is closed; both: both ends "+
		"close at nearly the same time} and start offsets; oracle: the far peer observes end-of-stream (EOF or reset) within 5 s of the "+
		"close, for clean closes after reading exactly the bytes sent before it, and the file-descriptor count of both bridge processes "+
		"returns to its baseline once all endpoints are closed (nothing outlives both endpoints); non-trivial = a clean close preceded by "+
		"data in both directions, or a dirty close; distinct = SHA-256 of the case")

func TestMain(m *testing.M) { vh.Main(m, rec, recS) }

type Conn struct {
	Closer  string `json:"closer"` // client | server
	Mode    string `json:"mode"`   // clean | dirty | dirty-quiet | both | target-down
	ToFar   int    `json:"closer_to_far_bytes"`
	ToClose int    `json:"far_to_closer_bytes"`
	StartMs int    `json:"start_ms"`
	// clean mode only: the far peer starts reading FarDelayMs after the close and pauses FarPauseUs after every read of
	// up to 32 KiB, so that the bridge still holds undelivered data when it learns of the close
	FarDelayMs int `json:"far_read_delay_ms,omitempty"`
	FarPauseUs int `json:"far_read_pause_us,omitempty"`
}

type Case struct {
	Conns []Conn `json:"conns"`
}

func genCase(t *rapid.T) Case {
	var c Case
	n := rapid.IntRange(1, 20).Draw(t, "n")
	for i := 0; i < n; i++ {
		c.Conns = append(c.Conns, Conn{
			Closer:  rapid.SampledFrom([]string{"client", "server"}).Draw(t, "closer"),
			Mode:    rapid.SampledFrom([]string{"clean", "clean", "clean", "dirty", "dirty-quiet", "both", "target-down"}).Draw(t, "mode"),
			ToFar:   rapid.SampledFrom([]int{0, 1, 100, 1024, 1025, 50000, 200000}).Draw(t, "toFar"),
			ToClose: rapid.SampledFrom([]int{0, 1, 100, 1024, 50000}).Draw(t, "toCloser"),
			StartMs: rapid.SampledFrom([]int{0, 0, 1, 5, 20}).Draw(t, "start"),
		})
		cn := &c.Conns[len(c.Conns)-1]
		if cn.Mode == "clean" && rapid.IntRange(0, 2).Draw(t, "slowFar") == 0 {
			cn.ToFar = rapid.SampledFrom([]int{200000, 1 << 20, 2 << 20, 6 << 20}).Draw(t, "bigToFar")
			cn.FarDelayMs = rapid.SampledFrom([]int{0, 100, 400}).Draw(t, "farDelay")
			cn.FarPauseUs = rapid.SampledFrom([]int{500, 2000, 5000}).Draw(t, "farPause")
		}
	}
	return c
}

type rig struct {
	ln     net.Listener
	bridge *vh.Bridge
	down   *vh.Bridge // a second bridge whose target port is closed
	baseD  [2]int
	mu     sync.Mutex
	wait   map[string]chan net.Conn
	base   [2]int
}

var (
	rigMu  sync.Mutex
	theRig *rig
	ctr    int
)

func fdCount(p *vh.Proc) int {
	ents, err := os.ReadDir(fmt.Sprintf("/proc/%d/fd", p.Cmd.Process.Pid))
	if err != nil {
		return -1
	}
	return len(ents)
}

func getRig(t vh.TB) *rig {
	rigMu.Lock()
	defer rigMu.Unlock()
	if theRig != nil {
		return theRig
	}
	ln, err := net.Listen("tcp", "127.0.0.1:0")
	if err != nil {
		t.Fatalf("INFRA: %v", err)
	}
	r := &rig{ln: ln, wait: map[string]chan net.Conn{}}
	go func() {
		for {
			c, err := ln.Accept()
			if err != nil {
				return
			}
			go func() {
				id := make([]byte, 16)
				c.SetReadDeadline(time.Now().Add(30 * time.Second))
				if _, err := io.ReadFull(c, id); err != nil {
					c.Close()
					return
				}
				c.SetReadDeadline(time.Time{})
				r.mu.Lock()
				ch := r.wait[string(id)]
				r.mu.Unlock()
				if ch == nil {
					c.Close()
					return
				}
				ch <- c
			}()
		}
	}()
	r.bridge, err = vh.StartBridge(ln.Addr().(*net.TCPAddr).Port)
	if err != nil {
		t.Fatalf("INFRA: cannot start bridge: %v", err)
	}
	r.down, err = vh.StartBridge(1) // target port 1 refuses connections for good (a port that is free now need not stay free)
	if err != nil {
		t.Fatalf("INFRA: cannot start the second bridge: %v", err)
	}
	time.Sleep(100 * time.Millisecond)
	r.base = [2]int{fdCount(r.bridge.Front), fdCount(r.bridge.Back)}
	r.baseD = [2]int{fdCount(r.down.Front), fdCount(r.down.Back)}
	theRig = r
	return r
}

func closeRig() {
	rigMu.Lock()
	defer rigMu.Unlock()
	if theRig != nil {
		theRig.bridge.Stop()
		theRig.down.Stop()
		theRig.ln.Close()
		theRig = nil
	}
}

const eosBound = 5 * time.Second

// readUntilEOS reads until end-of-stream; it reports the bytes read and whether the stream ended in time.
func readUntilEOS(c net.Conn, bound time.Duration) (got []byte, ended bool, err error) {
	return readSlowlyUntilEOS(c, bound, 0)
}

// readSlowlyUntilEOS pauses after every read (a receiver that is slower than the bridge).
func readSlowlyUntilEOS(c net.Conn, bound time.Duration, pause time.Duration) (got []byte, ended bool, err error) {
	c.SetReadDeadline(time.Now().Add(bound))
	var b bytes.Buffer
	buf := make([]byte, 32768)
	for {
		n, e := c.Read(buf)
		b.Write(buf[:n])
		if pause > 0 && e == nil {
			time.Sleep(pause)
		}
		if e != nil {
			if vh.IsTimeout(e) {
				return b.Bytes(), false, e
			}
			return b.Bytes(), true, e // io.EOF, ECONNRESET, EPIPE: the stream ended
		}
	}
}

func runConn(r *rig, i int, cn Conn) (err error, timedOut bool) {
	if cn.StartMs > 0 {
		time.Sleep(time.Duration(cn.StartMs) * time.Millisecond)
	}
	rigMu.Lock()
	ctr++
	id := fmt.Sprintf("conn-%011d", ctr)
	rigMu.Unlock()
	ch := make(chan net.Conn, 1)
	r.mu.Lock()
	r.wait[id] = ch
	r.mu.Unlock()
	defer func() {
		r.mu.Lock()
		delete(r.wait, id)
		r.mu.Unlock()
	}()
	if cn.Mode == "target-down" {
		// the far endpoint does not exist: the client must see end-of-stream, and nothing may stay behind
		cl, e := net.DialTimeout("tcp", r.down.FrontAddr, 10*time.Second)
		if e != nil {
			return fmt.Errorf("connection %d: cannot connect to the bridge frontend: %v", i, e), false
		}
		defer cl.Close()
		cl.Write(vh.Payload(id, cn.ToFar))
		if _, ended, _ := readUntilEOS(cl, eosBound); !ended {
			return fmt.Errorf("connection %d: the bridge target is unreachable and the client saw no end-of-stream within %v", i, eosBound), true
		}
		return nil, false
	}
	cl, e := net.DialTimeout("tcp", r.bridge.FrontAddr, 10*time.Second)
	if e != nil {
		return fmt.Errorf("connection %d: cannot connect to the bridge frontend: %v", i, e), false
	}
	defer cl.Close()
	cl.Write([]byte(id))
	var sv net.Conn
	select {
	case sv = <-ch:
	case <-time.After(20 * time.Second):
		return fmt.Errorf("connection %d: bridged connection was not established", i), true
	}
	defer sv.Close()
	closer, far := cl, sv
	if cn.Closer == "server" {
		closer, far = sv, cl
	}
	toFar := vh.Payload(id+"toFar", cn.ToFar)
	toCloser := vh.Payload(id+"toCloser", cn.ToClose)
	switch cn.Mode {
	case "clean":
		// 1. far -> closer, fully read by the closer
		werr := make(chan error, 1)
		go func() { _, e := far.Write(toCloser); werr <- e }()
		closer.SetReadDeadline(time.Now().Add(30 * time.Second))
		got := make([]byte, len(toCloser))
		if _, e := io.ReadFull(closer, got); e != nil || !bytes.Equal(got, toCloser) {
			return fmt.Errorf("connection %d: data towards the closer did not arrive intact before the close (%v)", i, e), vh.IsTimeout(e)
		}
		<-werr
		// 2. the closer writes and closes at once
		if _, e := closer.Write(toFar); e != nil {
			return fmt.Errorf("connection %d: write before close failed: %v", i, e), false
		}
		closer.Close()
		// 3. the far peer must read exactly those bytes and then end-of-stream
		if cn.FarDelayMs > 0 {
			time.Sleep(time.Duration(cn.FarDelayMs) * time.Millisecond)
		}
		gotFar, ended, e := readSlowlyUntilEOS(far, eosBound+time.Duration(cn.ToFar/50000)*time.Second, time.Duration(cn.FarPauseUs)*time.Microsecond)
		if !ended {
			return fmt.Errorf("connection %d: %s closed after writing %d bytes; the other peer read %d bytes and saw no end-of-stream within %v (clean close)", i, cn.Closer, len(toFar), len(gotFar), eosBound), true
		}
		if !bytes.Equal(gotFar, toFar) {
			return fmt.Errorf("connection %d: %s wrote %d bytes and closed cleanly; the other peer (reading from %d ms later, pausing %d us per read) received %d bytes before end-of-stream (%v)", i, cn.Closer, len(toFar), cn.FarDelayMs, cn.FarPauseUs, len(gotFar), e), false
		}
	case "dirty":
		// the far side keeps writing towards the closer, which closes without reading
		stop := make(chan struct{})
		var wg sync.WaitGroup
		wg.Add(1)
		go func() {
			defer wg.Done()
			chunk := vh.Payload("dirty", 4096)
			far.SetWriteDeadline(time.Now().Add(20 * time.Second))
			for {
				select {
				case <-stop:
					return
				default:
				}
				if _, e := far.Write(chunk); e != nil {
					return
				}
				time.Sleep(200 * time.Microsecond)
			}
		}()
		closer.Write(toFar)
		time.Sleep(2 * time.Millisecond)
		closer.Close()
		_, ended, _ := readUntilEOS(far, eosBound)
		close(stop)
		far.Close()
		wg.Wait()
		if !ended {
			return fmt.Errorf("connection %d: %s closed (dirty close); the other peer saw no end-of-stream within %v", i, cn.Closer, eosBound), true
		}
	case "dirty-quiet":
		// the far side has sent something the closer never reads (so its close goes out as a reset) and then stays silent
		unread := toCloser
		if len(unread) == 0 {
			unread = []byte("x")
		}
		if _, e := far.Write(unread); e != nil {
			return fmt.Errorf("connection %d: write failed: %v", i, e), false
		}
		time.Sleep(30 * time.Millisecond) // let the bytes reach the closer's socket
		closer.Write(toFar)
		closer.Close()
		_, ended, _ := readUntilEOS(far, eosBound)
		if !ended {
			return fmt.Errorf("connection %d: %s closed with %d unread bytes pending (its close is a reset) and the silent other peer saw no end-of-stream within %v", i, cn.Closer, len(unread), eosBound), true
		}
	case "both":
		closer.Write(toFar)
		far.Write(toCloser)
		go closer.Close()
		far.Close()
	}
	return nil, false
}

func runCase(t vh.TB, c *Case) vh.Outcome {
	r := getRig(t)
	o := vh.Outcome{}
	errs := make([]error, len(c.Conns))
	tos := make([]bool, len(c.Conns))
	var wg sync.WaitGroup
	for i := range c.Conns {
		i := i
		cn := c.Conns[i]
		if (cn.Mode == "clean" && cn.ToFar > 0 && cn.ToClose > 0) || cn.Mode == "dirty" || cn.Mode == "dirty-quiet" || cn.Mode == "target-down" {
			o.NonTrivial = true
		}
		o.Classes = append(o.Classes, cn.Mode+"-close-by-"+cn.Closer)
		wg.Add(1)
		go func() {
			defer wg.Done()
			errs[i], tos[i] = runConn(r, i, cn)
		}()
	}
	wg.Wait()
	if err := r.bridge.Health(); err != nil {
		o.Err = err
		closeRig()
		return o
	}
	for i, e := range errs {
		if e != nil {
			o.Err = e
			o.TimedOut = tos[i]
			closeRig() // leaked connections would distort the following cases
			return o
		}
	}
	// all endpoints are closed now: nothing may outlive them inside the bridge
	deadline := time.Now().Add(eosBound)
	var f, b int
	for {
		f, b = fdCount(r.bridge.Front), fdCount(r.bridge.Back)
		fd, bd := fdCount(r.down.Front), fdCount(r.down.Back)
		if f < 0 || b < 0 || fd < 0 || bd < 0 {
			return o
		}
		if f <= r.base[0] && b <= r.base[1] && fd <= r.baseD[0] && bd <= r.baseD[1] {
			return o
		}
		if f <= r.base[0] && b <= r.base[1] {
			f, b = fd, bd // report the bridge whose target is down
		}
		if time.Now().After(deadline) {
			break
		}
		time.Sleep(10 * time.Millisecond)
	}
	o.Err = fmt.Errorf("all %d connections were closed at both endpoints, yet %v later the bridge frontend holds %d file descriptors (baseline %d) and the bridge backend %d (baseline %d): bridged connections outlive their endpoints",
		len(c.Conns), eosBound, f, r.base[0], b, r.base[1])
	o.TimedOut = true
	closeRig()
	return o
}

func TestPropClosePropagation(t *testing.T) {
	defer closeRig()
	vh.Rapid(t, vh.Scale(250, 4000), func(rt *rapid.T) {
		c := genCase(rt)
		rec.Check(rt, &c, func() vh.Outcome { return vh.Confirm(func(int) vh.Outcome { return runCase(rt, &c) }) })
	})
}

func TestReplay(t *testing.T) {
	defer closeRig()
	var c Case
	ok, err := vh.ReplayCase("close-propagation", &c)
	if err != nil {
		t.Fatalf("INFRA: %v", err)
	}
	if !ok {
		t.Skip("no replay for this part")
	}
	for i := 0; i < vh.ReplayRuns(); i++ {
		rec.Check(t, &c, func() vh.Outcome { return vh.Confirm(func(int) vh.Outcome { return runCase(t, &c) }) })
	}
}
