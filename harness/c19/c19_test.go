// Package c19 checks property C19: the App Engine proxy relays each request and its response intact.
package c19

import (
	"bufio"
	"bytes"
	"context"
	"encoding/json"
	"fmt"
	"io"
	"net/http"
	"os"
	"strings"
	"sync"
	"testing"
	"time"

	"github.com/google/inverting-proxy/app/cache"
	"github.com/google/inverting-proxy/app/store"
	"github.com/google/inverting-proxy/app/types"
	"google.golang.org/appengine/v2"
	"pgregory.net/rapid"
	"verif/harness/aerig"
	"verif/harness/fakeae"
	"verif/harness/vh"
)

var (
	recR = vh.NewRecorder("C19", "relay",
		"1-8 concurrent end-user requests over 1-3 backends of the App Engine proxy binary (three services, fake App Engine API), harness-played "+
			"agents that list, fetch and respond in generated orders and delays; request and response payloads sized so that the serialised size is "+
			"small or lands at 999999/1000000/1000001/1999999/2000000/2000001/3.5M (calibrated against the fetched length); oracle: fetched bytes "+
			"parse back to the client's own request (method, target, token header, body), every client receives status, headers and body of the "+
			"response posted under its own id, a completed id is absent from later pending lists; non-trivial = at least 2 requests in flight for "+
			"one backend or a payload >= 1000000 bytes; distinct = SHA-256 of the case"+
			" Later additions: backend ids of 400 bytes; request targets with query strings a canonicalising hop would rewrite; requests fetched a second time before and/or after their response (200 => the same bytes again).")
	recB = vh.NewRecorder("C19", "blobs",
		"requests and responses of sizes {0,1,999999,1000000,1000001,1999999,2000000,2000001,3000001,3500000, and 11-31 MB needing ten and more parts} written and read back through "+
			"cache.NewCachingStore(store.NewPersistentStore()) in-process on the fake datastore/memcache, with memcache kept or flushed between "+
			"write and read; oracle: byte-identical contents and metadata; non-trivial = size >= 1000000"+
			" Later additions: 11-31 MB payloads (ten and more parts); writes whose first 1/2/4/5/7/all blob-part Puts fail (the write must return within 60 s and success implies a complete read-back).")
	recF = vh.NewRecorder("C19", "store-faults",
		"one relayed request with injected failures of store operations (request Put, blob-part Put, response Put, completed-flag Put, Get, "+
			"RunQuery, memcache Set, memcache Get; the first 1-5 matching calls fail) during the phase {store, list, fetch, respond}; oracle: every "+
			"HTTP call returns within 8 s (the waiting client within 45 s) with the correct result or an error status, a response re-posted "+
			"without faults reaches the client intact, never partial or foreign bytes as success; non-trivial = at least one injected failure was hit"+
			" Later additions: two or three of {response Put, completed-flag Put, memcache Set, part Put} failing together while a response is posted.")
)

func TestMain(m *testing.M) {
	if os.Getenv("GAE_APPLICATION") == "" {
		os.Setenv("GAE_APPLICATION", "s~verif")
	}
	vh.Main(m, recR, recB, recF, recPC, recPP)
}

var (
	rigMu  sync.Mutex
	theRig *aerig.Rig
	runCtr int
)

func getRig(t vh.TB) *aerig.Rig {
	rigMu.Lock()
	defer rigMu.Unlock()
	if theRig == nil {
		r, err := aerig.Start()
		if err != nil {
			t.Fatalf("INFRA: cannot start the App Engine proxy: %v", err)
		}
		theRig = r
	}
	return theRig
}

func closeRig() {
	rigMu.Lock()
	defer rigMu.Unlock()
	if theRig != nil {
		theRig.Stop()
		theRig = nil
	}
}

type backend struct{ id, agent, user, prefix string }

var backends = []backend{
	{"b1", "agent1@example.com", "u1@example.com", "/one"},
	{"b2", "agent2@example.com", "u2@example.com", "/two"},
	{"b3", "agent3@example.com", "allUsers", "/shared"},
}

var admin = aerig.Identity{Email: "boss@example.com", Admin: true}

func agentHeaders(b backend, reqID string) http.Header {
	h := http.Header{"X-Inverting-Proxy-Backend-Id": {b.id}}
	if reqID != "" {
		h.Set("X-Inverting-Proxy-Request-Id", reqID)
	}
	return h
}

func setup(r *aerig.Rig, n int) error { return setupSet(r, backends[:n]) }

func setupSet(r *aerig.Rig, bs []backend) error {
	r.Fake.Reset()
	for _, b := range bs {
		body, _ := json.Marshal(map[string]any{"id": b.id, "backendUser": b.agent, "endUser": b.user, "pathPrefixes": []string{b.prefix}})
		if resp := r.Do("api", "POST", "/api/backends", nil, body, admin, 10*time.Second); resp.Err != nil || resp.Status != 200 {
			return fmt.Errorf("cannot register backend: %v %d", resp.Err, resp.Status)
		}
		if !keepAlive(r, b) {
			return fmt.Errorf("the proxy did not record the poll of backend %s", b.id[:2])
		}
	}
	return nil
}

func keepAlive(r *aerig.Rig, b backend) bool { return r.KeepAlive(b.id, b.agent) }

// ------------------------------------------------------------ relay

type Req struct {
	Backend   int    `json:"backend"`
	Method    string `json:"method"`
	ReqTarget int    `json:"request_serialised_size"`  // 0: small body
	RespSize  int    `json:"response_serialised_size"` // exact size of the posted response bytes
	AgentMs   int    `json:"agent_delay_ms"`
	Order     int    `json:"respond_order"`
	Query     string `json:"extra_query,omitempty"` // appended to the request target: parameters a canonicalising hop would rewrite
	// Refetch: the request is fetched once more (a second replica of the agent that saw the same pending list, or a
	// retry): 1 = before the response is posted, 2 = after the client has received it, 3 = both
	Refetch int `json:"refetch,omitempty"`
}

type RelayCase struct {
	Backends int   `json:"backends"`
	Reqs     []Req `json:"reqs"`
	LongIDs  bool  `json:"long_backend_ids,omitempty"` // backend ids of more than 400 bytes (datastore key names may be up to 1500 bytes long)
}

// backendSet returns the backends of a case.
func backendSet(long bool) []backend {
	bs := append([]backend(nil), backends...)
	if long {
		for i := range bs {
			bs[i].id += "-" + strings.Repeat("projects/verif/locations/us-central1/instances/", 9)[:400]
		}
	}
	return bs
}

func targetOf(b backend, tok, extra string) string {
	return fmt.Sprintf("%s/%s?tok=%s%s", b.prefix, tok, tok, extra)
}

var bigSizes = []int{999999, 1000000, 1000001, 1999999, 2000000, 2000001, 3500000}

func genRelay(t *rapid.T) RelayCase {
	c := RelayCase{Backends: rapid.IntRange(1, 3).Draw(t, "backends"), LongIDs: rapid.IntRange(0, 3).Draw(t, "longIDs") == 0}
	n := rapid.IntRange(1, 8).Draw(t, "n")
	big := 0
	for i := 0; i < n; i++ {
		q := Req{Backend: rapid.IntRange(0, c.Backends-1).Draw(t, "backend"), Method: rapid.SampledFrom([]string{"POST", "POST", "GET", "PUT"}).Draw(t, "method"),
			AgentMs: rapid.SampledFrom([]int{0, 0, 5, 50}).Draw(t, "agentMs"), Order: rapid.IntRange(0, 100).Draw(t, "order")}
		q.RespSize = rapid.SampledFrom([]int{100, 100, 1000, 50000}).Draw(t, "respSmall")
		q.Refetch = rapid.SampledFrom([]int{0, 0, 1, 2, 3}).Draw(t, "refetch")
		q.Query = rapid.SampledFrom([]string{"", "", "", "&b=2&a=1", "&q=a%20b", "&debug", "&x=a,b/c:d", "&a=1&a=0&", "&%7e=%7E"}).Draw(t, "query")
		if big < 2 && rapid.IntRange(0, 3).Draw(t, "big") == 0 {
			big++
			if q.Method != "GET" && rapid.Bool().Draw(t, "bigReq") {
				q.ReqTarget = rapid.SampledFrom(bigSizes).Draw(t, "reqTarget")
			} else {
				q.RespSize = rapid.SampledFrom(bigSizes).Draw(t, "respTarget")
			}
		}
		c.Reqs = append(c.Reqs, q)
	}
	return c
}

func respBytes(tok string, size int) []byte {
	head := fmt.Sprintf("HTTP/1.1 200 OK\r\nCache-Control: no-store\r\nX-Resp-Token: %s\r\nX-Multi: a\r\nX-Multi: b\r\nContent-Length: ", tok)
	// body length so that the total is exactly size
	for n := 0; ; n++ {
		bodyLen := size - len(head) - len(fmt.Sprint(n)) - 4
		if bodyLen < 0 {
			bodyLen = 0
		}
		if bodyLen == n || size < len(head)+6 {
			return append([]byte(head+fmt.Sprint(bodyLen)+"\r\n\r\n"), vh.Payload("resp"+tok, bodyLen)...)
		}
		if n > bodyLen+10 {
			n = bodyLen - 1
		}
	}
}

type inflight struct {
	q       Req
	tok     string
	body    []byte
	done    chan *aerig.Response
	rid     string
	fetched []byte
}

var overhead = map[string]int{} // serialised request size minus body size, per method and digits of the body length

func clientRequest(r *aerig.Rig, b backend, method, tok string, body []byte) *aerig.Response {
	return clientRequestQ(r, b, method, tok, "", body)
}

func clientRequestQ(r *aerig.Rig, b backend, method, tok, extra string, body []byte) *aerig.Response {
	hdr := http.Header{"X-Client-Token": {tok}, "Content-Type": {"application/octet-stream"}}
	// every request of every case carries the same trace and correlation ids (one trace spans many requests)
	hdr.Set("X-Cloud-Trace-Context", "105445aa7843bc8bf206b12000100000/1;o=1")
	hdr.Set("X-Request-Id", "105445aa7843bc8bf206b12000100000")
	user := b.user
	if user == "allUsers" {
		user = "u9@example.com"
	}
	return r.Do("default", method, targetOf(b, tok, extra), hdr, body, aerig.Identity{Email: user}, 60*time.Second)
}

func runRelay(t vh.TB, c *RelayCase) vh.Outcome {
	r := getRig(t)
	o := vh.Outcome{}
	backends := backendSet(c.LongIDs) // (shadows the package-level set for this case)
	if err := setupSet(r, backends[:c.Backends]); err != nil {
		o.Inconclusive = err.Error()
		return o
	}
	if c.LongIDs {
		o.Classes = append(o.Classes, "backend-ids-longer-than-400-bytes")
	}
	rigMu.Lock()
	runCtr++
	run := runCtr
	rigMu.Unlock()
	per := map[int]int{}
	var fl []*inflight
	for i, q := range c.Reqs {
		per[q.Backend]++
		f := &inflight{q: q, tok: fmt.Sprintf("c19x%06dx%02d", run, i), done: make(chan *aerig.Response, 1)}
		if q.Method != "GET" {
			size := 64
			if q.ReqTarget > 0 {
				key := fmt.Sprintf("%s/%d/%d", q.Method, len(fmt.Sprint(q.ReqTarget)), len(q.Query))
				ov, ok := overhead[key]
				if !ok {
					ov = 420 // first guess; corrected from what is fetched
				}
				size = q.ReqTarget - ov
			}
			f.body = vh.Payload("req"+f.tok, size)
		}
		fl = append(fl, f)
	}
	for _, n := range per {
		if n >= 2 {
			o.NonTrivial = true
			o.Classes = append(o.Classes, "2+requests-in-flight-for-one-backend")
		}
	}
	sentAt := time.Now()
	for _, f := range fl {
		f := f
		go func() { f.done <- clientRequestQ(r, backends[f.q.Backend], f.q.Method, f.tok, f.q.Query, f.body) }()
	}
	// agents: list until every request of the backend was seen, fetch, then respond in the generated order
	byRid := map[string]*inflight{}
	for bi := 0; bi < c.Backends; bi++ {
		b := backends[bi]
		want := per[bi]
		seen := map[string]bool{}
		deadline := time.Now().Add(40 * time.Second)
		for len(seen) < want && time.Now().Before(deadline) {
			resp := r.Do("agent", "GET", "/agent/pending", agentHeaders(b, ""), nil, aerig.Identity{OAuthEmail: b.agent}, 35*time.Second)
			var ids []string
			if resp.Err != nil || resp.Status != 200 || json.Unmarshal(resp.Body, &ids) != nil {
				o.Err = fmt.Errorf("pending list of %s: %v status %d", b.id, resp.Err, resp.Status)
				return o
			}
			for _, id := range ids {
				seen[id] = true
			}
		}
		if len(seen) != want {
			for _, f := range fl {
				select {
				case cr := <-f.done:
					o.Err = fmt.Errorf("client %s was answered %d %q before any agent responded", f.tok, cr.Status, head(cr.Body))
					return o
				default:
				}
			}
			o.Err = fmt.Errorf("backend %s has %d requests in flight but its pending lists showed %d ids within 40s", b.id, want, len(seen))
			o.TimedOut = true
			return o
		}
		for rid := range seen {
			resp := r.Do("agent", "GET", "/agent/request", agentHeaders(b, rid), nil, aerig.Identity{OAuthEmail: b.agent}, 20*time.Second)
			if resp.Err != nil || resp.Status != 200 {
				o.Err = fmt.Errorf("fetch of listed request %s answered %d (%v)", rid, resp.Status, resp.Err)
				return o
			}
			req, err := http.ReadRequest(bufio.NewReader(bytes.NewReader(resp.Body)))
			if err != nil {
				o.Err = fmt.Errorf("fetched bytes of %s (%d bytes) are not a serialised request: %v", rid, len(resp.Body), err)
				return o
			}
			tok := req.Header.Get("X-Client-Token")
			var f *inflight
			for _, x := range fl {
				if x.tok == tok {
					f = x
				}
			}
			if f == nil || f.q.Backend != bi {
				o.Err = fmt.Errorf("request %s fetched for backend %s carries token %q, which is not a request in flight for that backend", rid, b.id, tok)
				return o
			}
			got, _ := io.ReadAll(req.Body)
			wantURI := targetOf(b, f.tok, f.q.Query)
			if req.Method != f.q.Method || req.RequestURI != wantURI || !bytes.Equal(got, f.body) || req.Header.Get("Content-Type") != "application/octet-stream" {
				o.Err = fmt.Errorf("fetched request %s differs from what client %s sent: %s %s with %d body bytes (hash %s) vs %s %s with %d body bytes (hash %s); serialised size %d",
					rid, f.tok, req.Method, req.RequestURI, len(got), vh.HashBytes(got), f.q.Method, wantURI, len(f.body), vh.HashBytes(f.body), len(resp.Body))
				return o
			}
			if resp.Header.Get("X-Inverting-Proxy-Request-Id") != rid {
				o.Err = fmt.Errorf("fetch of %s answered for request id %q", rid, resp.Header.Get("X-Inverting-Proxy-Request-Id"))
				return o
			}
			f.rid = rid
			f.fetched = resp.Body
			byRid[rid] = f
			if f.q.ReqTarget > 0 {
				key := fmt.Sprintf("%s/%d/%d", f.q.Method, len(fmt.Sprint(f.q.ReqTarget)), len(f.q.Query))
				overhead[key] = len(resp.Body) - len(f.body)
				o.Classes = append(o.Classes, sizeClass("request", len(resp.Body)))
			}
			if len(resp.Body) >= 1000000 {
				o.NonTrivial = true
			}
		}
	}
	// respond in the generated order
	order := append([]*inflight(nil), fl...)
	for i := range order {
		for j := i + 1; j < len(order); j++ {
			if order[j].q.Order < order[i].q.Order {
				order[i], order[j] = order[j], order[i]
			}
		}
	}
	refetch := func(f *inflight, when string) error {
		b := backends[f.q.Backend]
		resp := r.Do("agent", "GET", "/agent/request", agentHeaders(b, f.rid), nil, aerig.Identity{OAuthEmail: b.agent}, 20*time.Second)
		if resp.Err != nil {
			return fmt.Errorf("second fetch of request %s (%s) failed: %v", f.rid, when, resp.Err)
		}
		// a proxy may refuse to hand a request out again; if it does hand it out, it must be the client's request
		if resp.Status == 200 && !bytes.Equal(resp.Body, f.fetched) {
			return fmt.Errorf("request %s of client %s was fetched a second time %s and answered 200 with %d bytes (hash %s); the first fetch had returned the client's serialised request of %d bytes (hash %s)",
				f.rid, f.tok, when, len(resp.Body), vh.HashBytes(resp.Body), len(f.fetched), vh.HashBytes(f.fetched))
		}
		return nil
	}
	// while the responses are posted, every backend's agent goes on polling, as a real agent does: a request whose
	// response has been accepted (200) must not turn up in a list reply that was asked for after that
	type listing struct {
		asked time.Time
		ids   []string
		bi    int
	}
	var lmu sync.Mutex
	var listings []listing
	outstanding := map[int]int{}
	for _, f := range fl {
		outstanding[f.q.Backend]++
	}
	stopPoll := make(chan struct{})
	var pollWG sync.WaitGroup
	for bi := 0; bi < c.Backends; bi++ {
		bi := bi
		pollWG.Add(1)
		go func() {
			defer pollWG.Done()
			b := backends[bi]
			idle := 0
			for {
				select {
				case <-stopPoll:
					return
				default:
				}
				// While a request of this backend is unanswered the list call returns at once. Afterwards it is a long poll
				// that goes on inside the proxy for 30 s after this client has given up on it: only a few of those.
				lmu.Lock()
				left := outstanding[bi]
				lmu.Unlock()
				if left == 0 {
					if idle++; idle > 4 {
						return
					}
				}
				asked := time.Now()
				resp := r.Do("agent", "GET", "/agent/pending", agentHeaders(b, ""), nil, aerig.Identity{OAuthEmail: b.agent}, 250*time.Millisecond)
				var ids []string
				if resp.Err == nil && resp.Status == 200 && json.Unmarshal(resp.Body, &ids) == nil && len(ids) > 0 {
					lmu.Lock()
					listings = append(listings, listing{asked, ids, bi})
					lmu.Unlock()
				}
				time.Sleep(time.Millisecond)
			}
		}()
	}
	accepted := map[string]time.Time{}
	defer func() {
		select {
		case <-stopPoll:
		default:
			close(stopPoll)
		}
		pollWG.Wait()
	}()
	for _, f := range order {
		if f.q.AgentMs > 0 {
			time.Sleep(time.Duration(f.q.AgentMs) * time.Millisecond)
		}
		if f.q.Refetch&1 != 0 {
			o.Classes = append(o.Classes, "fetched-twice-before-the-response")
			if err := refetch(f, "before the response was posted"); err != nil {
				o.Err = err
				return o
			}
		}
		b := backends[f.q.Backend]
		wire := respBytes(f.tok, f.q.RespSize)
		if len(wire) >= 1000000 {
			o.NonTrivial = true
			o.Classes = append(o.Classes, sizeClass("response", len(wire)))
		}
		resp := r.Do("agent", "POST", "/agent/response", agentHeaders(b, f.rid), wire, aerig.Identity{OAuthEmail: b.agent}, 30*time.Second)
		if resp.Err != nil || resp.Status != 200 {
			o.Err = fmt.Errorf("posting the response of %d bytes for %s answered %d (%v)", len(wire), f.rid, resp.Status, resp.Err)
			o.TimedOut = vh.IsTimeout(resp.Err)
			return o
		}
		accepted[f.rid] = time.Now()
		lmu.Lock()
		outstanding[f.q.Backend]--
		lmu.Unlock()
		// the client gets exactly this response
		select {
		case cr := <-f.done:
			wantResp, _ := http.ReadResponse(bufio.NewReader(bytes.NewReader(wire)), nil)
			wantBody, _ := io.ReadAll(wantResp.Body)
			if cr.Status == 504 && accepted[f.rid].Sub(sentAt) > 25*time.Second {
				// the proxy waits 30 s for a response; on a machine this busy the harness itself took longer to post it
				o.Inconclusive = fmt.Sprintf("the harness needed %v to post the response of %s (the proxy gives up after 30 s)", accepted[f.rid].Sub(sentAt).Round(time.Second), f.rid)
				return o
			}
			if cr.Err != nil || cr.Status != 200 || cr.Header.Get("X-Resp-Token") != f.tok || strings.Join(cr.Header.Values("X-Multi"), ",") != "a,b" || !bytes.Equal(cr.Body, wantBody) {
				o.Err = fmt.Errorf("client %s received status %d, token %q, %d body bytes (hash %s); the response posted under its id has token %q and %d body bytes (hash %s) (%v)",
					f.tok, cr.Status, cr.Header.Get("X-Resp-Token"), len(cr.Body), vh.HashBytes(cr.Body), f.tok, len(wantBody), vh.HashBytes(wantBody), cr.Err)
				return o
			}
		case <-time.After(45 * time.Second):
			o.Err = fmt.Errorf("client %s did not receive the response posted under its id within 45s", f.tok)
			o.TimedOut = true
			return o
		}
		if f.q.Refetch&2 != 0 {
			o.Classes = append(o.Classes, "fetched-again-after-the-response")
			if err := refetch(f, "after its response had been posted and delivered"); err != nil {
				o.Err = err
				return o
			}
		}
	}
	// a completed id is no longer listed: not in what the concurrent pollers were told (they go on for another 0.3 s) ...
	time.Sleep(300 * time.Millisecond)
	close(stopPoll)
	pollWG.Wait()
	lmu.Lock()
	for _, l := range listings {
		for _, id := range l.ids {
			if t, ok := accepted[id]; ok && l.asked.After(t) {
				lmu.Unlock()
				o.Err = fmt.Errorf("request %s was listed as pending in a reply asked for %v after the proxy had accepted its response (200)", id, l.asked.Sub(t).Round(time.Millisecond))
				return o
			}
		}
	}
	lmu.Unlock()
	// ... and not in a list asked for now
	time.Sleep(5 * time.Millisecond)
	for bi := 0; bi < c.Backends; bi++ {
		b := backends[bi]
		lst := r.Do("agent", "GET", "/agent/pending", agentHeaders(b, ""), nil, aerig.Identity{OAuthEmail: b.agent}, 150*time.Millisecond)
		for _, f := range fl {
			if lst.Err == nil && f.q.Backend == bi && strings.Contains(string(lst.Body), f.rid) {
				o.Err = fmt.Errorf("request %s is still listed as pending after its response was posted and delivered", f.rid)
				return o
			}
		}
	}
	if err := r.Health(); err != nil {
		o.Err = err
		closeRig()
	}
	return o
}

func sizeClass(what string, n int) string {
	for _, s := range bigSizes {
		if n == s {
			return fmt.Sprintf("%s-serialised==%d", what, s)
		}
	}
	if n >= 1000000 {
		return what + "-serialised>=1000000(off-target)"
	}
	return what + "-small"
}

func head(b []byte) string {
	if len(b) > 80 {
		b = b[:80]
	}
	return string(b)
}

func TestPropRelay(t *testing.T) {
	defer closeRig()
	vh.Rapid(t, vh.Scale(20, 600), func(rt *rapid.T) {
		c := genRelay(rt)
		recR.Check(rt, &c, func() vh.Outcome { return vh.Confirm(func(int) vh.Outcome { return runRelay(rt, &c) }) })
	})
}

// ------------------------------------------------------------ blobs (in-process)

type BlobCase struct {
	Size      int  `json:"size"`
	Response  bool `json:"response"`
	FlushMem  bool `json:"flush_memcache"`
	Completed bool `json:"completed"`
	// FailParts > 0: the first FailParts datastore Puts of blob parts fail (-1: all of them).
	FailParts int `json:"fail_part_puts,omitempty"`
	// Cron: the periodic clean-up (DeleteOldRequests, normally run by /cron/delete every 5 minutes) runs between the
	// write and the read; what was written seconds ago is not old and must survive it.
	Cron bool `json:"cleanup_runs_in_between,omitempty"`
}

func runBlob(c *BlobCase) vh.Outcome {
	o := vh.Outcome{NonTrivial: c.Size >= 1000000}
	o.Classes = append(o.Classes, fmt.Sprintf("size=%d", c.Size))
	f := fakeae.New()
	ctx := appengine.WithAPICallFunc(context.Background(), f.CallFunc(""))
	s := cache.NewCachingStore(store.NewPersistentStore())
	data := vh.Payload(fmt.Sprint("blob", c.Size), c.Size)
	if c.FailParts != 0 {
		return runBlobFault(c, f, ctx, s, data, o)
	}
	if c.Response {
		in := &types.Response{BackendID: "b1", RequestID: "r1", Contents: data, StartTime: time.Now()}
		if err := s.WriteResponse(ctx, in); err != nil {
			o.Err = fmt.Errorf("WriteResponse of %d bytes failed: %v", c.Size, err)
			return o
		}
		if c.Cron {
			if err := s.DeleteOldRequests(ctx); err != nil {
				o.Inconclusive = "the clean-up failed on the fake datastore: " + err.Error()
				return o
			}
			o.Classes = append(o.Classes, "cleanup-between-write-and-read")
		}
		if c.FlushMem {
			f.FlushMemcache()
		}
		out, err := s.ReadResponse(ctx, "b1", "r1")
		if err != nil || out == nil {
			o.Err = fmt.Errorf("ReadResponse after writing %d bytes failed: %v", c.Size, err)
			return o
		}
		if !bytes.Equal(out.Contents, data) || out.BackendID != "b1" || out.RequestID != "r1" {
			o.Err = fmt.Errorf("response of %d bytes read back as %d bytes (hash %s vs %s)", c.Size, len(out.Contents), vh.HashBytes(out.Contents), vh.HashBytes(data))
		}
		return o
	}
	in := types.NewRequest("b1", "r1", "u1@example.com", data)
	in.Completed = c.Completed
	if err := s.WriteRequest(ctx, in); err != nil {
		o.Err = fmt.Errorf("WriteRequest of %d bytes failed: %v", c.Size, err)
		return o
	}
	if c.Cron {
		if err := s.DeleteOldRequests(ctx); err != nil {
			o.Inconclusive = "the clean-up failed on the fake datastore: " + err.Error()
			return o
		}
		o.Classes = append(o.Classes, "cleanup-between-write-and-read")
	}
	if c.FlushMem {
		f.FlushMemcache()
	}
	out, err := s.ReadRequest(ctx, "b1", "r1")
	if err != nil || out == nil {
		o.Err = fmt.Errorf("ReadRequest after writing %d bytes failed: %v", c.Size, err)
		return o
	}
	if !bytes.Equal(out.Contents, data) || out.User != "u1@example.com" || out.Completed != c.Completed || out.RequestID != "r1" {
		o.Err = fmt.Errorf("request of %d bytes read back as %d bytes (hash %s vs %s), user %q completed %v", c.Size, len(out.Contents), vh.HashBytes(out.Contents), vh.HashBytes(data), out.User, out.Completed)
		return o
	}
	ids, err := s.ListPendingRequests(ctx, "b1")
	if err != nil {
		o.Err = fmt.Errorf("ListPendingRequests failed: %v", err)
		return o
	}
	listed := len(ids) == 1 && ids[0] == "r1"
	if listed == c.Completed {
		o.Err = fmt.Errorf("request with Completed=%v: pending list is %v", c.Completed, ids)
	}
	return o
}

// runBlobFault writes with failing part Puts: the write has to return, and if it reports success the
// payload has to read back complete.
func runBlobFault(c *BlobCase, f *fakeae.Fake, ctx context.Context, s types.Store, data []byte, o vh.Outcome) vh.Outcome {
	var mu sync.Mutex
	failed := 0
	f.SetHook(func(ci *fakeae.CallInfo) *fakeae.AppError {
		if !matches("part-put", ci) {
			return nil
		}
		mu.Lock()
		defer mu.Unlock()
		if c.FailParts < 0 || failed < c.FailParts {
			failed++
			return &fakeae.AppError{Code: 3, Detail: "injected failure of a blob part write"}
		}
		return nil
	})
	defer f.SetHook(nil)
	o.Classes = append(o.Classes, fmt.Sprintf("fail-part-puts=%d", c.FailParts))
	res := make(chan error, 1)
	go func() {
		if c.Response {
			res <- s.WriteResponse(ctx, &types.Response{BackendID: "b1", RequestID: "r1", Contents: data, StartTime: time.Now()})
		} else {
			res <- s.WriteRequest(ctx, types.NewRequest("b1", "r1", "u1@example.com", data))
		}
	}()
	var err error
	select {
	case err = <-res:
	case <-time.After(60 * time.Second):
		mu.Lock()
		n := failed
		mu.Unlock()
		o.Err = fmt.Errorf("writing %d bytes (response=%v) did not return within 60s after %d of its blob part writes failed", c.Size, c.Response, n)
		o.Signature = "blob write hangs after failed part writes"
		return o
	}
	mu.Lock()
	n := failed
	mu.Unlock()
	o.NonTrivial = n > 0
	if n == 0 || err != nil {
		if err != nil {
			o.Classes = append(o.Classes, "write-reported-error")
		}
		return o
	}
	// success reported although part writes failed: then the data has to be all there
	f.FlushMemcache()
	var got []byte
	if c.Response {
		out, rerr := s.ReadResponse(ctx, "b1", "r1")
		if rerr != nil || out == nil {
			return o
		}
		got = out.Contents
	} else {
		out, rerr := s.ReadRequest(ctx, "b1", "r1")
		if rerr != nil || out == nil {
			return o
		}
		got = out.Contents
	}
	if !bytes.Equal(got, data) {
		o.Err = fmt.Errorf("writing %d bytes reported success although %d blob part writes failed, and reads back as %d bytes (hash %s vs %s)", c.Size, n, len(got), vh.HashBytes(got), vh.HashBytes(data))
	}
	return o
}

func TestPropBlobs(t *testing.T) {
	sizes := []int{0, 1, 500, 999999, 1000000, 1000001, 1999999, 2000000, 2000001, 3000001, 3500000}
	vh.Rapid(t, vh.Scale(150, 3000), func(rt *rapid.T) {
		c := BlobCase{Response: rapid.Bool().Draw(rt, "response"), FlushMem: rapid.Bool().Draw(rt, "flush"), Completed: rapid.Bool().Draw(rt, "completed"),
			Cron: rapid.IntRange(0, 2).Draw(rt, "cron") == 0}
		switch rapid.IntRange(0, 11).Draw(rt, "any") {
		case 0, 1:
			c.Size = rapid.IntRange(0, 2100000).Draw(rt, "anySize")
		case 11:
			// ten and more blob parts (App Engine accepts requests of up to 32 MB)
			c.Size = rapid.SampledFrom([]int{10999999, 11000001, 12500000, 21000001, 31000000}).Draw(rt, "hugeSize")
		default:
			c.Size = rapid.SampledFrom(sizes).Draw(rt, "size")
		}
		if rapid.IntRange(0, 5).Draw(rt, "faulty") == 0 {
			c.FailParts = rapid.SampledFrom([]int{-1, 1, 2, 4, 5, 7}).Draw(rt, "failParts")
			c.Size = rapid.SampledFrom([]int{1000001, 3000001, 5000000, 6500000, 12500000}).Draw(rt, "faultySize")
		}
		recB.Check(rt, &c, func() vh.Outcome { return runBlob(&c) })
	})
}

// ------------------------------------------------------------ store faults (black box)

type FaultCase struct {
	Ops      []string `json:"failing_ops"`
	Count    int      `json:"first_n_matching_calls_fail"`
	Phase    string   `json:"phase"` // store | list | fetch | respond
	RespSize int      `json:"response_size"`
	ReqSize  int      `json:"request_size"`
}

var faultOps = []string{"req-put", "part-put", "resp-put", "completed-put", "get", "query", "mem-set", "mem-get", "tracker-put"}

func genFault(t *rapid.T) FaultCase {
	c := FaultCase{Count: rapid.SampledFrom([]int{1, 2, 5}).Draw(t, "count"), Phase: rapid.SampledFrom([]string{"respond", "respond", "respond", "store", "list", "fetch"}).Draw(t, "phase")}
	c.Ops = rapid.SliceOfNDistinct(rapid.SampledFrom(faultOps), 1, 4, func(s string) string { return s }).Draw(t, "ops")
	c.RespSize = rapid.SampledFrom([]int{200, 200, 1000001, 2000001}).Draw(t, "respSize")
	c.ReqSize = rapid.SampledFrom([]int{64, 64, 1000100}).Draw(t, "reqSize")
	if rapid.IntRange(0, 4).Draw(t, "doubleFault") == 0 {
		// two of the writes that posting a response performs (concurrently) fail at the same time
		c.Phase = "respond"
		c.Ops = rapid.SliceOfNDistinct(rapid.SampledFrom([]string{"resp-put", "completed-put", "mem-set", "part-put"}), 2, 3, func(s string) string { return s }).Draw(t, "respondOps")
	}
	return c
}

// completedFlag reports whether a Put request carries an indexed Completed=true property.
func isCompletedPut(ci *fakeae.CallInfo) bool {
	// property name "Completed" followed by a PropertyValue with booleanValue=true: 0x2a 0x02 0x10 0x01
	i := bytes.Index(ci.Request, []byte("Completed"))
	return i >= 0 && bytes.Contains(ci.Request[i:min(i+40, len(ci.Request))], []byte{0x2a, 0x02, 0x10, 0x01})
}

func matches(op string, ci *fakeae.CallInfo) bool {
	kindHas := func(prefix string) bool {
		for _, k := range ci.Kinds {
			if strings.HasPrefix(k, prefix) {
				return true
			}
		}
		return false
	}
	switch op {
	case "req-put":
		return ci.Service == "datastore_v3" && ci.Method == "Put" && kindHas("req:") && !isCompletedPut(ci)
	case "completed-put":
		return ci.Service == "datastore_v3" && ci.Method == "Put" && kindHas("req:") && isCompletedPut(ci)
	case "part-put":
		return ci.Service == "datastore_v3" && ci.Method == "Put" && kindHas("blobParts")
	case "resp-put":
		return ci.Service == "datastore_v3" && ci.Method == "Put" && kindHas("response")
	case "tracker-put":
		return ci.Service == "datastore_v3" && ci.Method == "Put" && (kindHas("backendTracker") || kindHas("activityTracker"))
	case "get":
		return ci.Service == "datastore_v3" && ci.Method == "Get" && (kindHas("req:") || kindHas("response") || kindHas("blobParts"))
	case "query":
		return ci.Service == "datastore_v3" && ci.Method == "RunQuery" && kindHas("req:")
	case "mem-set":
		return ci.Service == "memcache" && ci.Method == "Set"
	case "mem-get":
		return ci.Service == "memcache" && ci.Method == "Get"
	}
	return false
}

const callBound = 8 * time.Second

func runFault(t vh.TB, c *FaultCase) vh.Outcome {
	r := getRig(t)
	o := vh.Outcome{}
	if err := setup(r, 1); err != nil {
		o.Inconclusive = err.Error()
		return o
	}
	b := backends[0]
	rigMu.Lock()
	runCtr++
	tok := fmt.Sprintf("c19f%06d", runCtr)
	rigMu.Unlock()
	var mu sync.Mutex
	active := false
	hits := map[string]int{}
	r.Fake.SetHook(func(ci *fakeae.CallInfo) *fakeae.AppError {
		mu.Lock()
		defer mu.Unlock()
		if !active {
			return nil
		}
		for _, op := range c.Ops {
			if matches(op, ci) && hits[op] < c.Count {
				hits[op]++
				return &fakeae.AppError{Code: 3, Detail: "injected failure of " + op}
			}
		}
		return nil
	})
	defer r.Fake.SetHook(nil)
	phase := func(p string, f func()) {
		mu.Lock()
		active = c.Phase == p
		mu.Unlock()
		f()
		mu.Lock()
		active = false
		mu.Unlock()
	}
	agent := aerig.Identity{OAuthEmail: b.agent}
	body := vh.Payload("req"+tok, c.ReqSize)
	done := make(chan *aerig.Response, 1)
	var stored bool
	phase("store", func() {
		go func() { done <- clientRequest(r, b, "POST", tok, body) }()
		deadline := time.Now().Add(callBound)
		for time.Now().Before(deadline) && !stored {
			for _, k := range r.Fake.Kinds() {
				if strings.HasPrefix(k, "req:") && len(r.Fake.EntityNames(k)) > 0 {
					stored = true
				}
			}
			if len(done) > 0 {
				break
			}
			time.Sleep(2 * time.Millisecond)
		}
	})
	finish := func() vh.Outcome {
		mu.Lock()
		total := 0
		for op, n := range hits {
			if n > 0 {
				total += n
				o.Classes = append(o.Classes, c.Phase+":"+op)
			}
		}
		mu.Unlock()
		o.NonTrivial = total > 0
		if err := r.Health(); err != nil && o.Err == nil {
			o.Err = err
			closeRig()
		}
		return o
	}
	if !stored {
		select {
		case cr := <-done:
			if cr.Err != nil || cr.Status < 500 {
				o.Err = fmt.Errorf("the request could not be stored (failing %v) and the client was answered %d (%v), expected a 5xx", c.Ops, cr.Status, cr.Err)
			}
		case <-time.After(callBound):
			o.Err = fmt.Errorf("the request could not be stored (failing %v) and the client call is hanging", c.Ops)
			o.TimedOut = true
		}
		return finish()
	}
	// list
	var rid string
	phase("list", func() {
		deadline := time.Now().Add(45 * time.Second)
		for rid == "" && time.Now().Before(deadline) {
			resp := r.Do("agent", "GET", "/agent/pending", agentHeaders(b, ""), nil, agent, 40*time.Second)
			if resp.Err != nil {
				o.Err = fmt.Errorf("pending-list call did not return (failing %v): %v", c.Ops, resp.Err)
				o.TimedOut = true
				return
			}
			var ids []string
			if resp.Status == 200 && json.Unmarshal(resp.Body, &ids) == nil && len(ids) > 0 {
				rid = ids[0]
			}
		}
	})
	if o.Err != nil {
		return finish()
	}
	if rid == "" {
		o.Err = fmt.Errorf("a stored request was never listed as pending")
		return finish()
	}
	// fetch
	phase("fetch", func() {
		resp := r.Do("agent", "GET", "/agent/request", agentHeaders(b, rid), nil, agent, callBound)
		if resp.Err != nil {
			o.Err = fmt.Errorf("fetch did not return within %v (failing %v): %v", callBound, c.Ops, resp.Err)
			o.TimedOut = true
			return
		}
		if resp.Status == 200 {
			req, err := http.ReadRequest(bufio.NewReader(bytes.NewReader(resp.Body)))
			var got []byte
			if err == nil {
				got, _ = io.ReadAll(req.Body)
			}
			if err != nil || !bytes.Equal(got, body) {
				o.Err = fmt.Errorf("fetch answered 200 with partial or foreign bytes while %v were failing (%d of %d body bytes, %v)", c.Ops, len(got), len(body), err)
			}
		}
	})
	if o.Err != nil {
		return finish()
	}
	// respond
	wire := respBytes(tok, c.RespSize)
	var status int
	phase("respond", func() {
		resp := r.Do("agent", "POST", "/agent/response", agentHeaders(b, rid), wire, agent, callBound)
		if resp.Err != nil {
			o.Err = fmt.Errorf("posting a response did not return within %v while %v were failing: the call is left hanging (%v)", callBound, c.Ops, resp.Err)
			o.TimedOut = true
			return
		}
		status = resp.Status
	})
	if o.Err != nil {
		return finish()
	}
	if status != 200 {
		o.Classes = append(o.Classes, "respond-reported-error")
		if status < 400 {
			o.Err = fmt.Errorf("posting a response answered %d", status)
			return finish()
		}
		// the agent posts it again, now without faults
		resp := r.Do("agent", "POST", "/agent/response", agentHeaders(b, rid), wire, agent, callBound)
		if resp.Err != nil || resp.Status != 200 {
			o.Err = fmt.Errorf("re-posting the response without faults answered %d (%v)", resp.Status, resp.Err)
			return finish()
		}
	}
	select {
	case cr := <-done:
		wantResp, _ := http.ReadResponse(bufio.NewReader(bytes.NewReader(wire)), nil)
		wantBody, _ := io.ReadAll(wantResp.Body)
		if cr.Err != nil {
			o.Err = fmt.Errorf("the client got no answer: %v", cr.Err)
		} else if cr.Status == 200 && (cr.Header.Get("X-Resp-Token") != tok || !bytes.Equal(cr.Body, wantBody)) {
			o.Err = fmt.Errorf("the client received partial or foreign bytes as success: token %q, %d of %d body bytes (failing %v in phase %s)", cr.Header.Get("X-Resp-Token"), len(cr.Body), len(wantBody), c.Ops, c.Phase)
		} else if cr.Status != 200 && cr.Status < 500 {
			o.Err = fmt.Errorf("the client was answered %d", cr.Status)
		} else if cr.Status != 200 {
			o.Classes = append(o.Classes, fmt.Sprintf("client-got-%d", cr.Status))
		}
	case <-time.After(45 * time.Second):
		o.Err = fmt.Errorf("the client was not answered within 45s although the response was posted successfully (failing %v in phase %s)", c.Ops, c.Phase)
		o.TimedOut = true
	}
	return finish()
}

func TestPropStoreFaults(t *testing.T) {
	defer closeRig()
	vh.Rapid(t, vh.Scale(30, 1500), func(rt *rapid.T) {
		c := genFault(rt)
		recF.Check(rt, &c, func() vh.Outcome { return vh.Confirm(func(int) vh.Outcome { return runFault(rt, &c) }) })
	})
}

// TestPropGatewayTimeout samples the 504 path once (thorough tier only: it takes 30 s).
func TestPropGatewayTimeout(t *testing.T) {
	if !vh.Thorough() || vh.Shard() != 0 {
		t.Skip("thorough tier, shard 0 only")
	}
	defer closeRig()
	r := getRig(t)
	if err := setup(r, 1); err != nil {
		t.Fatalf("INFRA: %v", err)
	}
	c := FaultCase{Phase: "no-response-posted"}
	recF.Check(t, &c, func() vh.Outcome {
		start := time.Now()
		cr := clientRequest(r, backends[0], "POST", "c19timeout", []byte("x"))
		o := vh.Outcome{Classes: []string{"504-when-no-response-arrives"}}
		if cr.Err != nil || cr.Status != 504 {
			o.Err = fmt.Errorf("a request that no agent answered was answered %d after %v (%v), expected 504", cr.Status, time.Since(start), cr.Err)
		}
		return o
	})
}

func TestReplay(t *testing.T) {
	defer closeRig()
	var rc RelayCase
	if ok, err := vh.ReplayCase("relay", &rc); err != nil {
		t.Fatalf("INFRA: %v", err)
	} else if ok {
		recR.Check(t, &rc, func() vh.Outcome { return vh.Confirm(func(int) vh.Outcome { return runRelay(t, &rc) }) })
		return
	}
	var bc BlobCase
	if ok, _ := vh.ReplayCase("blobs", &bc); ok {
		recB.Check(t, &bc, func() vh.Outcome { return runBlob(&bc) })
		return
	}
	var fc FaultCase
	if ok, _ := vh.ReplayCase("store-faults", &fc); ok {
		recF.Check(t, &fc, func() vh.Outcome { return vh.Confirm(func(int) vh.Outcome { return runFault(t, &fc) }) })
		return
	}
	t.Skip("no replay for this package")
}
