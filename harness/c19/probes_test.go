package c19

import (
	"encoding/json"
	"fmt"
	"net/http"
	"testing"
	"time"

	"verif/harness/aerig"
	"verif/harness/vh"
)

// Probes for defects of the App Engine proxy that are recorded in /verif/known_findings.json and not repaired (see
// DESIGN.md 8.10). Each probe is one fixed scenario; the generated search of this package keeps out of these regions
// (every generated request has a URL of its own or a Cache-Control answer, and a canonical path). A probe that fails is
// reported by the driver as KNOWN-FINDING as long as the entry is listed; it falls silent once the defect is repaired.
var (
	recPC = vh.NewRecorder("C19", "probe-get-response-cache",
		"one fixed scenario (known finding F19c): a user's GET is answered by the agent with a 200 without Cache-Control; the same user "+
			"sends the same GET again; it must be stored and offered to the agent like any other request")
	recPP = vh.NewRecorder("C19", "probe-non-canonical-path",
		"one fixed scenario (known finding F19d): a user's POST for a path with an empty segment (/one//x) must be stored for the "+
			"backend with that request target")
)

type ProbeCase struct {
	Name string `json:"probe"`
}

func probeRig(t vh.TB) (r *aerig.Rig, b backend, ok bool) {
	r = getRig(t)
	if err := setup(r, 1); err != nil {
		return r, backend{}, false
	}
	return r, backends[0], true
}

func pendingIDs(r *aerig.Rig, b backend, timeout time.Duration) []string {
	resp := r.Do("agent", "GET", "/agent/pending", agentHeaders(b, ""), nil, aerig.Identity{OAuthEmail: b.agent}, timeout)
	var ids []string
	if resp.Err == nil && resp.Status == 200 {
		json.Unmarshal(resp.Body, &ids)
	}
	return ids
}

func runProbeCache(t vh.TB) (o vh.Outcome) {
	o.NonTrivial = true
	r, b, ok := probeRig(t)
	if !ok {
		o.Inconclusive = "cannot set up the backend"
		return
	}
	uri := fmt.Sprintf("%s/probe-cache-%d?x=1", b.prefix, time.Now().UnixNano())
	get := func() chan *aerig.Response {
		ch := make(chan *aerig.Response, 1)
		go func() { ch <- r.Do("default", "GET", uri, nil, nil, aerig.Identity{Email: b.user}, 40*time.Second) }()
		return ch
	}
	answer := func(body string) bool {
		var ids []string
		for deadline := time.Now().Add(15 * time.Second); time.Now().Before(deadline) && len(ids) == 0; {
			ids = pendingIDs(r, b, 2*time.Second)
		}
		if len(ids) == 0 {
			return false
		}
		wire := fmt.Sprintf("HTTP/1.1 200 OK\r\nContent-Length: %d\r\n\r\n%s", len(body), body)
		resp := r.Do("agent", "POST", "/agent/response", agentHeaders(b, ids[0]), []byte(wire), aerig.Identity{OAuthEmail: b.agent}, 10*time.Second)
		return resp.Err == nil && resp.Status == 200
	}
	first := get()
	if !answer("response-to-the-first-request") {
		o.Inconclusive = "the first request was not offered to the agent"
		return
	}
	if cr := <-first; cr.Err != nil || string(cr.Body) != "response-to-the-first-request" {
		o.Inconclusive = "the first request was not answered as posted"
		return
	}
	second := get()
	select {
	case cr := <-second:
		if cr.Err == nil && string(cr.Body) == "response-to-the-first-request" {
			o.Err = fmt.Errorf("KNOWN-PROBE F19c: the second GET of %s was never stored nor offered to the agent; its client received the response posted for the first request (status %d)", uri, cr.Status)
		} else {
			o.Inconclusive = fmt.Sprintf("the second request was answered %d before any agent responded", cr.Status)
		}
	case <-time.After(3 * time.Second):
		// still waiting: it was stored for the agent, as it should be
		answer("response-to-the-second-request")
		<-second
	}
	return
}

func runProbePath(t vh.TB) (o vh.Outcome) {
	o.NonTrivial = true
	r, b, ok := probeRig(t)
	if !ok {
		o.Inconclusive = "cannot set up the backend"
		return
	}
	uri := b.prefix + "//probe-path?x=1"
	ch := make(chan *aerig.Response, 1)
	go func() {
		ch <- r.Do("default", "POST", uri, http.Header{"Content-Type": {"text/plain"}}, []byte("body"), aerig.Identity{Email: b.user}, 20*time.Second)
	}()
	var ids []string
	for deadline := time.Now().Add(6 * time.Second); time.Now().Before(deadline) && len(ids) == 0; {
		select {
		case cr := <-ch:
			if cr.Err == nil && cr.Status/100 == 3 {
				o.Err = fmt.Errorf("KNOWN-PROBE F19d: POST %s was answered %d (Location %q) by the proxy itself and never stored for the backend", uri, cr.Status, cr.Header.Get("Location"))
			} else {
				o.Inconclusive = fmt.Sprintf("the request was answered %d before any agent responded", cr.Status)
			}
			return
		default:
		}
		ids = pendingIDs(r, b, time.Second)
	}
	if len(ids) == 0 {
		o.Inconclusive = "the request was neither answered nor offered to the agent"
		return
	}
	wire := "HTTP/1.1 200 OK\r\nCache-Control: no-store\r\nContent-Length: 2\r\n\r\nok"
	r.Do("agent", "POST", "/agent/response", agentHeaders(b, ids[0]), []byte(wire), aerig.Identity{OAuthEmail: b.agent}, 10*time.Second)
	<-ch
	return
}

func TestPropProbeGetResponseCache(t *testing.T) {
	defer closeRig()
	c := ProbeCase{Name: "get-response-cache"}
	recPC.Check(t, &c, func() vh.Outcome { return runProbeCache(t) })
}

func TestPropProbeNonCanonicalPath(t *testing.T) {
	defer closeRig()
	c := ProbeCase{Name: "non-canonical-path"}
	recPP.Check(t, &c, func() vh.Outcome { return runProbePath(t) })
}
