// Package c15 checks property C15: the TCP bridge carries byte streams intact in both directions.
package c15

import (
	"bytes"
	"crypto/sha256"
	"fmt"
	"io"
	"net"
	"runtime"
	"strings"
	"sync"
	"testing"
	"time"

	"github.com/google/inverting-proxy/utils/tcpbridge/connection"
	"github.com/gorilla/websocket"
	"net/http"
	"net/http/httptest"
	"net/url"
	"pgregory.net/rapid"
	"verif/harness/vh"
)

var (
	recS = vh.NewRecorder("C15", "streams",
		"1-16 concurrent connections through the tcp-bridge-frontend and tcp-bridge-backend binaries to a harness TCP server; per direction a "+
			"list of writes with sizes from {0,1,2,1023,1024,1025,4096,32767,32768,32769,65536,1MiB} over all 256 byte values, read-buffer "+
			"sizes from {1,7,1024,65536}, pauses, both directions at once; oracle: length and SHA-256 of every received stream equal those of "+
			"the sent stream, per connection and direction (each stream is a deterministic function of connection id and direction, so foreign "+
			"bytes cannot match); non-trivial = both directions active with a write > 1024 and a read buffer smaller than a write; distinct = SHA-256 of the case"+
			" Later additions: connections on which the server speaks first while the client stays silent (second bridge pair).")
	recP = vh.NewRecorder("C15", "passthrough",
		"plain HTTP requests (method, target with escapes and query, 0-5 header fields incl. repeated ones, Content-Length or chunked body up to "+
			"64 KiB) sent to the bridge backend's port; oracle: a recording raw backend receives the same request line, Host, field values and body")
	recN = vh.NewRecorder("C15", "netconn",
		"write-size and read-size vectors over 1-4 connection.WebsocketNetConn pairs used at the same time in one process (in-process); oracle: bytes read == bytes written")
)

func TestMain(m *testing.M) { vh.Main(m, recS, recP, recN) }

type Dir struct {
	Writes   []int `json:"writes"`
	ReadBuf  int   `json:"read_buf"`
	PausesMs []int `json:"pauses_ms,omitempty"`
}

type Conn struct {
	C2S Dir `json:"c2s"`
	S2C Dir `json:"s2c"`
	// ServerFirst: the client sends nothing until it has received the first bytes from the server (a greeting protocol
	// such as SMTP or SSH); otherwise the client writes first.
	ServerFirst bool `json:"server_first,omitempty"`
}

type Case struct {
	Conns []Conn `json:"conns"`
}

var wsizes = []int{0, 1, 2, 100, 1023, 1024, 1025, 4096, 32767, 32768, 32769, 65536, 1 << 20}

func genDir(t *rapid.T, budget *int) Dir {
	d := Dir{ReadBuf: rapid.SampledFrom([]int{65536, 1024, 7, 1}).Draw(t, "readBuf")}
	n := rapid.IntRange(0, 8).Draw(t, "nwrites")
	total := 0
	for i := 0; i < n; i++ {
		s := rapid.SampledFrom(wsizes).Draw(t, "wsize")
		if s > *budget {
			s = 100
		}
		*budget -= s
		total += s
		d.Writes = append(d.Writes, s)
	}
	if d.ReadBuf == 1 && total > 20000 {
		d.ReadBuf = 7 // byte-wise reading of large streams only costs time
	}
	if d.ReadBuf == 7 && total > 300000 {
		d.ReadBuf = 1024
	}
	if rapid.IntRange(0, 3).Draw(t, "pause") == 0 {
		d.PausesMs = rapid.SliceOfN(rapid.SampledFrom([]int{0, 1, 5}), 1, 3).Draw(t, "pauses")
	}
	return d
}

func genCase(t *rapid.T) Case {
	var c Case
	n := rapid.IntRange(1, 16).Draw(t, "nconns")
	budget := vh.Scale(6<<20, 32<<20)
	for i := 0; i < n; i++ {
		c.Conns = append(c.Conns, Conn{C2S: genDir(t, &budget), S2C: genDir(t, &budget), ServerFirst: rapid.IntRange(0, 3).Draw(t, "serverFirst") == 0})
	}
	return c
}

type rig struct {
	ln     net.Listener
	bridge *vh.Bridge
	mu     sync.Mutex
	wait   map[string]chan net.Conn
	greet  bool                // the server speaks first: it names the connection in a 16-byte greeting
	ready  map[string]net.Conn // greeting rigs: server ends by the id they announced
	nready int
}

var (
	rigMu    sync.Mutex
	theRig   *rig
	greetRig *rig
	ctr      int
)

func getRig(t vh.TB) *rig { return rigOf(t, &theRig, false) }

// getGreetRig is a second bridge whose target server speaks first.
func getGreetRig(t vh.TB) *rig { return rigOf(t, &greetRig, true) }

func rigOf(t vh.TB, slot **rig, greet bool) *rig {
	rigMu.Lock()
	defer rigMu.Unlock()
	if *slot != nil {
		return *slot
	}
	ln, err := net.Listen("tcp", "127.0.0.1:0")
	if err != nil {
		t.Fatalf("INFRA: %v", err)
	}
	r := &rig{ln: ln, wait: map[string]chan net.Conn{}, greet: greet, ready: map[string]net.Conn{}}
	go func() {
		for {
			c, err := ln.Accept()
			if err != nil {
				return
			}
			if greet {
				r.mu.Lock()
				r.nready++
				id := fmt.Sprintf("srvr-%011d", r.nready)
				r.ready[id] = c
				r.mu.Unlock()
				go c.Write([]byte(id))
				continue
			}
			go func() {
				// the first 16 bytes of every bridged stream name the connection
				id := make([]byte, 16)
				c.SetReadDeadline(time.Now().Add(30 * time.Second))
				if _, err := io.ReadFull(c, id); err != nil {
					c.Close()
					return
				}
				c.SetReadDeadline(time.Time{})
				r.mu.Lock()
				ch := r.wait[string(id)]
				r.mu.Unlock()
				if ch == nil {
					c.Close()
					return
				}
				ch <- c
			}()
		}
	}()
	r.bridge, err = vh.StartBridge(ln.Addr().(*net.TCPAddr).Port)
	if err != nil {
		t.Fatalf("INFRA: cannot start bridge: %v", err)
	}
	*slot = r
	return r
}

func closeRig() {
	rigMu.Lock()
	defer rigMu.Unlock()
	for _, slot := range []**rig{&theRig, &greetRig} {
		if *slot != nil {
			(*slot).bridge.Stop()
			(*slot).ln.Close()
			(*slot).mu.Lock()
			for _, c := range (*slot).ready {
				c.Close()
			}
			(*slot).mu.Unlock()
			*slot = nil
		}
	}
}

// stream returns the deterministic content of one direction of one connection.
func stream(id, dir string, d Dir) []byte {
	total := 0
	for _, w := range d.Writes {
		total += w
	}
	return vh.Payload(id+dir, total)
}

func send(c net.Conn, data []byte, d Dir) error {
	off := 0
	for i, w := range d.Writes {
		if len(d.PausesMs) > 0 {
			if p := d.PausesMs[i%len(d.PausesMs)]; p > 0 {
				time.Sleep(time.Duration(p) * time.Millisecond)
			}
		}
		if _, err := c.Write(data[off : off+w]); err != nil {
			return err
		}
		off += w
	}
	return nil
}

func receive(c net.Conn, want int, bufSize int, timeout time.Duration) ([]byte, error) {
	var got bytes.Buffer
	buf := make([]byte, bufSize)
	c.SetReadDeadline(time.Now().Add(timeout))
	defer c.SetReadDeadline(time.Time{})
	for got.Len() < want {
		n, err := c.Read(buf)
		got.Write(buf[:n])
		if err != nil {
			return got.Bytes(), err
		}
	}
	return got.Bytes(), nil
}

func sum(b []byte) string { h := sha256.Sum256(b); return fmt.Sprintf("%x", h[:8]) }

func runCase(t vh.TB, c *Case, mult int) vh.Outcome {
	r := getRig(t)
	var gr *rig
	o := vh.Outcome{}
	for _, cn := range c.Conns {
		if cn.ServerFirst && gr == nil {
			gr = getGreetRig(t)
			o.Classes = append(o.Classes, "server-speaks-first")
		}
	}
	errs := make([]error, len(c.Conns))
	timedOut := make([]bool, len(c.Conns))
	var wg sync.WaitGroup
	for i := range c.Conns {
		i := i
		cn := c.Conns[i]
		big, small := false, false
		for _, d := range []Dir{cn.C2S, cn.S2C} {
			for _, w := range d.Writes {
				if w > 1024 {
					big = true
				}
				if d.ReadBuf < w {
					small = true
				}
			}
		}
		if len(cn.C2S.Writes) > 0 && len(cn.S2C.Writes) > 0 && big && small {
			o.NonTrivial = true
			o.Classes = append(o.Classes, "bidirectional+write>1024+small-read-buffer")
		}
		rigMu.Lock()
		ctr++
		id := fmt.Sprintf("conn-%011d", ctr)
		rigMu.Unlock()
		wg.Add(1)
		go func() {
			defer wg.Done()
			ch := make(chan net.Conn, 1)
			r.mu.Lock()
			r.wait[id] = ch
			r.mu.Unlock()
			defer func() {
				r.mu.Lock()
				delete(r.wait, id)
				r.mu.Unlock()
			}()
			r := r
			if cn.ServerFirst {
				r = gr
			}
			cl, err := net.DialTimeout("tcp", r.bridge.FrontAddr, 10*time.Second)
			if err != nil {
				errs[i] = fmt.Errorf("connection %d: cannot connect to the bridge frontend: %v", i, err)
				return
			}
			defer cl.Close()
			var sv net.Conn
			if cn.ServerFirst {
				// the client stays silent until the server's 16-byte greeting has arrived
				greeting, gerr := receive(cl, 16, 16, time.Duration(mult)*20*time.Second)
				if gerr != nil || len(greeting) != 16 {
					errs[i] = fmt.Errorf("connection %d: the server writes first, but its 16-byte greeting did not reach the silent client within %ds (%d bytes, %v)", i, mult*20, len(greeting), gerr)
					timedOut[i] = true
					return
				}
				r.mu.Lock()
				sv = r.ready[string(greeting)]
				delete(r.ready, string(greeting))
				r.mu.Unlock()
				if sv == nil {
					errs[i] = fmt.Errorf("connection %d: the client received the greeting %q, which no server end has sent", i, greeting)
					return
				}
				id = string(greeting)
			} else {
				if _, err := cl.Write([]byte(id)); err != nil {
					errs[i] = fmt.Errorf("connection %d: %v", i, err)
					return
				}
				select {
				case sv = <-ch:
				case <-time.After(time.Duration(mult) * 20 * time.Second):
					errs[i] = fmt.Errorf("connection %d: the first 16 bytes written to the bridged connection never reached the server", i)
					timedOut[i] = true
					return
				}
			}
			defer sv.Close()
			up, down := stream(id, "c2s", cn.C2S), stream(id, "s2c", cn.S2C)
			var iw sync.WaitGroup
			var e1, e2, e3, e4 error
			var gotUp, gotDown []byte
			tmo := time.Duration(mult) * 30 * time.Second
			iw.Add(4)
			go func() { defer iw.Done(); e1 = send(cl, up, cn.C2S) }()
			go func() { defer iw.Done(); e2 = send(sv, down, cn.S2C) }()
			go func() { defer iw.Done(); gotUp, e3 = receive(sv, len(up), cn.C2S.ReadBuf, tmo) }()
			go func() { defer iw.Done(); gotDown, e4 = receive(cl, len(down), cn.S2C.ReadBuf, tmo) }()
			iw.Wait()
			for _, e := range []error{e1, e2} {
				if e != nil {
					errs[i] = fmt.Errorf("connection %d: write failed: %v", i, e)
					return
				}
			}
			check := func(dir string, got, want []byte, e error) error {
				if bytes.Equal(got, want) {
					return nil
				}
				if len(got) < len(want) && bytes.Equal(got, want[:len(got)]) {
					timedOut[i] = vh.IsTimeout(e)
					return fmt.Errorf("connection %d %s: only %d of %d bytes arrived (%v)", i, dir, len(got), len(want), e)
				}
				return fmt.Errorf("connection %d %s: stream altered: sent %d bytes (sha %s), received %d bytes (sha %s), first difference at offset %d", i, dir, len(want), sum(want), len(got), sum(got), firstDiff(got, want))
			}
			if err := check("client->server", gotUp, up, e3); err != nil {
				errs[i] = err
				return
			}
			if err := check("server->client", gotDown, down, e4); err != nil {
				errs[i] = err
				return
			}
			// nothing may follow the stream
			cl.SetReadDeadline(time.Now().Add(5 * time.Millisecond))
			extra := make([]byte, 16)
			if n, _ := cl.Read(extra); n > 0 {
				errs[i] = fmt.Errorf("connection %d: %d extra bytes arrived at the client after the complete stream", i, n)
			}
		}()
	}
	wg.Wait()
	if len(c.Conns) >= 2 {
		o.Classes = append(o.Classes, "concurrent-connections")
	}
	for _, x := range []*rig{r, gr} {
		if x == nil {
			continue
		}
		if err := x.bridge.Health(); err != nil {
			o.Err = err
			closeRig()
			return o
		}
	}
	for i, e := range errs {
		if e != nil {
			o.Err = e
			o.TimedOut = timedOut[i]
			return o
		}
	}
	return o
}

func firstDiff(a, b []byte) int {
	n := min(len(a), len(b))
	for i := 0; i < n; i++ {
		if a[i] != b[i] {
			return i
		}
	}
	return n
}

func TestPropStreams(t *testing.T) {
	defer closeRig()
	vh.Rapid(t, vh.Scale(60, 1000), func(rt *rapid.T) {
		c := genCase(rt)
		recS.Check(rt, &c, func() vh.Outcome { return vh.Confirm(func(m int) vh.Outcome { return runCase(rt, &c, m) }) })
	})
}

// ------------------------------------------------------------ passthrough

type PassCase struct {
	Method   string           `json:"method"`
	Target   string           `json:"target"`
	Fields   []vh.HeaderField `json:"fields"`
	BodySize int              `json:"body_size"`
	Chunked  bool             `json:"chunked"`
}

var (
	passOnce    sync.Once
	passBackend *vh.RawBackend
	passBridge  *vh.Bridge
	passSeen    sync.Map
	passErr     error
)

func genPass(t *rapid.T) PassCase {
	c := PassCase{Method: rapid.SampledFrom([]string{"GET", "POST", "PUT", "DELETE"}).Draw(t, "method")}
	c.Target = rapid.SampledFrom([]string{"/", "/a/b", "/a%2Fb", "/x%20y", "/p;v=1", "/tcp-over-websocket-bridge/35218cb7-1201-4940-89e8-48d8f03fed96", "/a//b"}).Draw(t, "path") +
		rapid.SampledFrom([]string{"", "?a=1&a=2", "?q=%20&r=+", "?"}).Draw(t, "query")
	n := rapid.IntRange(0, 5).Draw(t, "nf")
	for i := 0; i < n; i++ {
		name := rapid.SampledFrom([]string{"X-A", "X-B", "Accept", "Cookie", "Authorization", "Accept-Language"}).Draw(t, "fn")
		c.Fields = append(c.Fields, vh.HeaderField{Name: name, Value: rapid.StringMatching(`[!-~]{0,20}`).Draw(t, "fv")})
	}
	if c.Method == "POST" || c.Method == "PUT" {
		c.BodySize = rapid.SampledFrom([]int{0, 1, 1024, 4096, 65536}).Draw(t, "body")
		c.Chunked = rapid.Bool().Draw(t, "chunked")
	}
	return c
}

func runPass(t vh.TB, c *PassCase) vh.Outcome {
	passOnce.Do(func() {
		passBackend = vh.NewRawBackend(func(rq *vh.RawRequest, conn net.Conn) bool {
			if v := rq.Values(vh.TokenHeader); len(v) > 0 {
				passSeen.Store(v[0], rq)
			}
			conn.Write([]byte("HTTP/1.1 200 OK\r\nContent-Length: 2\r\n\r\nok"))
			return true
		})
		_, port, _ := net.SplitHostPort(passBackend.Addr)
		var p int
		fmt.Sscan(port, &p)
		passBridge, passErr = vh.StartBridge(p)
	})
	if passErr != nil {
		t.Fatalf("INFRA: %v", passErr)
	}
	o := vh.Outcome{NonTrivial: strings.ContainsAny(c.Target, "%?") || c.BodySize > 0}
	rigMu.Lock()
	ctr++
	tok := fmt.Sprintf("pass-%d", ctr)
	rigMu.Unlock()
	var b bytes.Buffer
	fmt.Fprintf(&b, "%s %s HTTP/1.1\r\nHost: bridge.example:81\r\nUser-Agent: harness\r\n%s: %s\r\n", c.Method, c.Target, vh.TokenHeader, tok)
	for _, f := range c.Fields {
		fmt.Fprintf(&b, "%s: %s\r\n", f.Name, f.Value)
	}
	body := vh.Payload(tok, c.BodySize)
	switch {
	case c.Method != "POST" && c.Method != "PUT":
		b.WriteString("\r\n")
	case c.Chunked:
		b.WriteString("Transfer-Encoding: chunked\r\n\r\n")
		b.Write(vh.ChunkedEncode(body, []int{1, 1000}, nil))
	default:
		fmt.Fprintf(&b, "Content-Length: %d\r\n\r\n", len(body))
		b.Write(body)
	}
	resp, err := vh.RawRoundTrip(passBridge.BackAddr, b.Bytes(), c.Method, 20*time.Second)
	if herr := passBridge.Health(); herr != nil {
		o.Err = herr
		return o
	}
	if err != nil || resp.Status != 200 {
		o.Err = fmt.Errorf("non-bridge request %s %s was not passed through: %v (status %v)", c.Method, c.Target, err, resp)
		o.TimedOut = vh.IsTimeout(err)
		return o
	}
	v, ok := passSeen.LoadAndDelete(tok)
	if !ok {
		o.Err = fmt.Errorf("the backend port never saw the request")
		return o
	}
	g := v.(*vh.RawRequest)
	if want := fmt.Sprintf("%s %s HTTP/1.1", c.Method, c.Target); g.Line != want {
		o.Err = fmt.Errorf("request line altered in passthrough: %q -> %q", want, g.Line)
		return o
	}
	if h := g.Values("Host"); len(h) != 1 || h[0] != "bridge.example:81" {
		o.Err = fmt.Errorf("Host altered in passthrough: %q", h)
		return o
	}
	names := map[string]bool{}
	for _, f := range c.Fields {
		names[f.Name] = true
	}
	for n := range names {
		want := vh.FieldValues(c.Fields, n)
		if have := g.Values(n); strings.Join(have, "\x00") != strings.Join(want, "\x00") {
			o.Err = fmt.Errorf("field %s altered in passthrough: %q -> %q", n, want, have)
			return o
		}
	}
	if !bytes.Equal(g.Body, body) && !(len(body) == 0 && len(g.Body) == 0) {
		o.Err = fmt.Errorf("body altered in passthrough: %d -> %d bytes", len(body), len(g.Body))
	}
	return o
}

func TestPropPassthrough(t *testing.T) {
	defer func() {
		if passBridge != nil {
			passBridge.Stop()
		}
	}()
	vh.Rapid(t, vh.Scale(400, 6000), func(rt *rapid.T) {
		c := genPass(rt)
		recP.Check(rt, &c, func() vh.Outcome { return runPass(rt, &c) })
	})
}

// ------------------------------------------------------------ WebsocketNetConn in-process

type NetConnCase struct {
	Writes []int `json:"writes"`
	Reads  []int `json:"reads"`
}

// NetCase is 1-4 WebsocketNetConn pairs used at the same time in one process.
type NetCase struct {
	Conns []NetConnCase `json:"conns"`
}

func netPair() (a, b net.Conn, cleanup func(), err error) {
	got := make(chan *websocket.Conn, 1)
	up := websocket.Upgrader{ReadBufferSize: 1024, WriteBufferSize: 1024}
	srv := httptest.NewServer(http.HandlerFunc(func(w http.ResponseWriter, r *http.Request) {
		c, err := up.Upgrade(w, r, nil)
		if err == nil {
			got <- c
		}
	}))
	u, _ := url.Parse("ws" + strings.TrimPrefix(srv.URL, "http"))
	a, err = connection.DialWebsocket(nil2ctx(), u, nil)
	if err != nil {
		srv.Close()
		return nil, nil, nil, err
	}
	sc := <-got
	b = &connection.WebsocketNetConn{Conn: sc}
	return a, b, func() { a.Close(); sc.Close(); srv.Close() }, nil
}

func runNetOne(k int, c *NetConnCase) error {
	a, b, cleanup, err := netPair()
	if err != nil {
		return nil
	}
	defer cleanup()
	total := 0
	for _, w := range c.Writes {
		total += w
	}
	data := vh.Payload(fmt.Sprint(k, c.Writes), total)
	go func() {
		off := 0
		for _, w := range c.Writes {
			a.Write(data[off : off+w])
			off += w
		}
	}()
	var got bytes.Buffer
	b.SetDeadline(time.Now().Add(60 * time.Second))
	for i := 0; got.Len() < total; i++ {
		n := 4096
		if len(c.Reads) > 0 {
			n = c.Reads[i%len(c.Reads)]
		}
		if total > 20000 && n < 100 {
			n = 100 // byte-wise reading of large streams only costs time
		}
		buf := make([]byte, n)
		r, err := b.Read(buf)
		got.Write(buf[:r])
		if err != nil {
			return fmt.Errorf("connection %d: read error after %d of %d bytes: %v", k, got.Len(), total, err)
		}
		if n > 0 && r == 0 && i > 10*total+100 {
			return fmt.Errorf("connection %d: Read keeps returning 0 bytes", k)
		}
		if k%2 == 1 && i%16 == 0 {
			runtime.Gosched() // let the other connections interleave
		}
	}
	if !bytes.Equal(got.Bytes(), data) {
		return fmt.Errorf("connection %d of %d: WebsocketNetConn altered the stream: wrote %d bytes, read %d bytes, first difference at %d (writes %v, reads %v)", k, 0, total, got.Len(), firstDiff(got.Bytes(), data), c.Writes, c.Reads)
	}
	return nil
}

func runNet(c *NetCase) vh.Outcome {
	o := vh.Outcome{}
	errs := make([]error, len(c.Conns))
	var wg sync.WaitGroup
	for k := range c.Conns {
		k := k
		if len(c.Conns[k].Writes) >= 2 {
			o.NonTrivial = true
		}
		wg.Add(1)
		go func() {
			defer wg.Done()
			errs[k] = runNetOne(k, &c.Conns[k])
		}()
	}
	wg.Wait()
	if len(c.Conns) > 1 {
		o.Classes = append(o.Classes, "several-connections-in-one-process")
	}
	for _, e := range errs {
		if e != nil {
			o.Err = e
			break
		}
	}
	return o
}

func TestPropNetConn(t *testing.T) {
	vh.Rapid(t, vh.Scale(300, 5000), func(rt *rapid.T) {
		var c NetCase
		n := rapid.SampledFrom([]int{1, 1, 2, 3, 4}).Draw(rt, "nconns")
		for i := 0; i < n; i++ {
			c.Conns = append(c.Conns, NetConnCase{
				Writes: rapid.SliceOfN(rapid.SampledFrom([]int{0, 1, 2, 511, 512, 513, 1023, 1024, 1025, 2048, 5000, 40000}), 1, 8).Draw(rt, "writes"),
				Reads:  rapid.SliceOfN(rapid.SampledFrom([]int{1, 2, 3, 7, 100, 512, 1024, 4096}), 0, 4).Draw(rt, "reads"),
			})
		}
		recN.Check(rt, &c, func() vh.Outcome { return runNet(&c) })
	})
}

func FuzzNetConn(f *testing.F) {
	f.Add([]byte("hello world"), uint8(3), uint8(2))
	f.Add(bytes.Repeat([]byte{0, 255, 10, 13}, 600), uint8(200), uint8(1))
	f.Fuzz(func(t *testing.T, data []byte, wsz, rsz uint8) {
		if len(data) > 20000 {
			t.Skip()
		}
		a, b, cleanup, err := netPair()
		if err != nil {
			t.Skip()
		}
		defer cleanup()
		w, r := int(wsz)+1, int(rsz)+1
		go func() {
			for off := 0; off < len(data); off += w {
				a.Write(data[off:min(off+w, len(data))])
			}
		}()
		var got bytes.Buffer
		b.SetDeadline(time.Now().Add(20 * time.Second))
		buf := make([]byte, r)
		for got.Len() < len(data) {
			k, err := b.Read(buf)
			got.Write(buf[:k])
			if err != nil {
				t.Fatalf("read error: %v", err)
			}
		}
		if !bytes.Equal(got.Bytes(), data) {
			t.Fatalf("stream altered")
		}
	})
}

func TestReplay(t *testing.T) {
	defer closeRig()
	var c Case
	if ok, err := vh.ReplayCase("streams", &c); err != nil {
		t.Fatalf("INFRA: %v", err)
	} else if ok {
		for i := 0; i < vh.ReplayRuns(); i++ {
			recS.Check(t, &c, func() vh.Outcome { return vh.Confirm(func(m int) vh.Outcome { return runCase(t, &c, m) }) })
		}
		return
	}
	var p PassCase
	if ok, _ := vh.ReplayCase("passthrough", &p); ok {
		recP.Check(t, &p, func() vh.Outcome { return runPass(t, &p) })
		return
	}
	var n NetCase
	if ok, _ := vh.ReplayCase("netconn", &n); ok {
		recN.Check(t, &n, func() vh.Outcome { return runNet(&n) })
		return
	}
	t.Skip("no replay for this package")
}
