package c15

import "context"

func nil2ctx() context.Context { return context.Background() }
