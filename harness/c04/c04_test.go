// Package c04 checks property C04: each client request is forwarded at most once.
package c04

import (
	"bufio"
	"bytes"
	"context"
	"encoding/json"
	"fmt"
	"io"
	"net"
	"net/http"
	"sort"
	"strings"
	"sync"
	"testing"
	"time"

	"pgregory.net/rapid"
	"verif/harness/vh"
)

var (
	recA = vh.NewRecorder("C04", "agent-dedup",
		"histories of pending-list replies for 1-40 outstanding request IDs (dedicated cases with 999/1000 IDs at the dedup-window "+
			"boundary): each reply is a generated sub-multiset/permutation of the outstanding IDs or the full list (as the App Engine "+
			"proxy re-lists everything on every poll), with generated gaps, fetch/upload/backend delays so that re-listing overlaps "+
			"every phase; oracle = counting backend (invocations per token) and uploads per ID; non-trivial = some ID listed at least "+
			"twice; distinct = SHA-256 of the canonical case"+
			" Later additions: empty list replies; requests whose first three response uploads are ended without an answer and which are then listed again (forwarded exactly once all the same); ids listed once more after their response was uploaded, also for a request that was named in every list reply while 1000 others came and went.")
	recB = vh.NewRecorder("C04", "server-pollers",
		"1-16 concurrent long-pollers against the stand-alone proxy binary while 1-40 clients arrive with generated gaps; oracle = the "+
			"multiset of IDs over all list replies has no duplicate and exactly one entry per client, fetching each yields distinct "+
			"client tokens, each client receives the response posted under its own ID; non-trivial = at least 2 pollers and 2 clients"+
			" Later additions: bursts of 99/100/101/130/250 clients queued before the first poll.")
)

func TestMain(m *testing.M) { vh.Main(m, recA, recB) }

// ---------------------------------------------------------------- part A

type CaseA struct {
	N            int     `json:"n"`
	Replies      [][]int `json:"replies"` // indices into the request set; -1 = full list
	GapsMs       []int   `json:"gaps_ms"`
	FetchDelayMs []int   `json:"fetch_delay_ms"`  // per request (mod)
	UploadDelay  []int   `json:"upload_delay_ms"` // per request (mod)
	BackendMs    []int   `json:"backend_ms"`      // per request (mod)
	// FailUploads: requests (indices) whose first three response uploads are ended by the proxy without an answer
	// (the agent gives up after three attempts); the proxy keeps listing such a request, as the App Engine proxy does.
	FailUploads []int `json:"fail_uploads,omitempty"`
	// FinalRelist: requests (indices) that the proxy lists once more after every response has been uploaded (a list
	// reply that was computed before the response arrived, as the App Engine proxy's polls can produce)
	FinalRelist []int `json:"final_relist,omitempty"`
}

func genCaseA(t *rapid.T) CaseA {
	var c CaseA
	kind := rapid.IntRange(0, 19).Draw(t, "kind")
	switch {
	case kind == 0 && vh.Thorough(), kind == 0 && rapid.IntRange(0, 9).Draw(t, "bigq") == 0:
		// dedup-window boundary: 999 or 1000 distinct outstanding IDs, then the oldest are listed again
		c.N = rapid.SampledFrom([]int{999, 1000}).Draw(t, "bigN")
		for lo := 0; lo < c.N; lo += 100 {
			var r []int
			for i := lo; i < lo+100 && i < c.N; i++ {
				r = append(r, i)
			}
			c.Replies = append(c.Replies, r)
		}
		k := rapid.IntRange(1, 20).Draw(t, "relistOld")
		var r []int
		for i := 0; i < k; i++ {
			r = append(r, i)
		}
		c.Replies = append(c.Replies, r, []int{-1})
		c.GapsMs = []int{0}
		c.FetchDelayMs, c.UploadDelay, c.BackendMs = []int{0}, []int{0}, []int{0}
		return c
	}
	if kind == 1 && rapid.IntRange(0, 1).Draw(t, "outstanding") == 0 {
		// one request stays at the backend for a long time while more than 1000 other requests come and go (never more
		// than about a hundred outstanding at once); then the proxy, which still has no response for it, lists it again
		extra := rapid.SampledFrom([]int{1001, 1050}).Draw(t, "others")
		c.N = extra + 1
		c.Replies = append(c.Replies, []int{0})
		for lo := 1; lo <= extra; lo += 100 {
			var r []int
			for i := lo; i < lo+100 && i <= extra; i++ {
				r = append(r, i)
			}
			c.Replies = append(c.Replies, r)
		}
		c.Replies = append(c.Replies, []int{0}, []int{0})
		c.GapsMs = []int{30}
		c.FetchDelayMs, c.UploadDelay = []int{0}, []int{0}
		c.BackendMs = make([]int, c.N)
		c.BackendMs[0] = 8000
		if rapid.Bool().Draw(t, "relistThroughout") {
			// the proxy names the outstanding request in every list reply (as the App Engine proxy does), so it is among the
			// most recently reported ids all the time; it is listed once more after its response has been uploaded
			for i := 1; i < len(c.Replies)-2; i++ {
				c.Replies[i] = append([]int{0}, c.Replies[i]...)
			}
			c.BackendMs[0] = 4000
			c.FinalRelist = []int{0}
		}
		return c
	}
	c.N = rapid.IntRange(1, 40).Draw(t, "n")
	nr := rapid.IntRange(1, 12).Draw(t, "nreplies")
	for i := 0; i < nr; i++ {
		switch rapid.IntRange(0, 3).Draw(t, "rkind") {
		case 0:
			c.Replies = append(c.Replies, []int{-1})
		default:
			c.Replies = append(c.Replies, rapid.SliceOfN(rapid.IntRange(0, c.N-1), 0, 2*c.N).Draw(t, "reply"))
		}
	}
	// make sure every ID is listed at least once, so "exactly once" is exercised for all of them
	c.Replies = append(c.Replies, []int{-1})
	if rapid.Bool().Draw(t, "again") {
		c.Replies = append(c.Replies, []int{-1})
	}
	delays := []int{0, 0, 0, 1, 5, 30}
	c.GapsMs = rapid.SliceOfN(rapid.SampledFrom([]int{0, 0, 1, 5, 20, 60}), 1, 6).Draw(t, "gaps")
	c.FetchDelayMs = rapid.SliceOfN(rapid.SampledFrom(delays), 1, 5).Draw(t, "fetchDelay")
	c.UploadDelay = rapid.SliceOfN(rapid.SampledFrom(delays), 1, 5).Draw(t, "uploadDelay")
	c.BackendMs = rapid.SliceOfN(rapid.SampledFrom(delays), 1, 5).Draw(t, "backendMs")
	if rapid.IntRange(0, 2).Draw(t, "finalRelist") == 0 {
		c.FinalRelist = rapid.SliceOfNDistinct(rapid.IntRange(0, c.N-1), 1, 4, func(i int) int { return i }).Draw(t, "finalRelistIdx")
	}
	if rapid.IntRange(0, 3).Draw(t, "uploadFaults") == 0 {
		c.FailUploads = rapid.SliceOfNDistinct(rapid.IntRange(0, c.N-1), 1, 3, func(i int) int { return i }).Draw(t, "failUploads")
	}
	return c
}

type agentRig struct {
	fp      *vh.FakeProxy
	meta    *vh.FakeMeta
	agent   *vh.Proc
	backend *vh.RawBackend
	mu      sync.Mutex
	counts  map[string]int
	delays  map[string]int
	ctr     int
	holds   map[string]chan struct{}
}

var (
	rigMu sync.Mutex
	rig   *agentRig
)

func getRig(t vh.TB) *agentRig {
	rigMu.Lock()
	defer rigMu.Unlock()
	if rig != nil {
		return rig
	}
	r := &agentRig{counts: map[string]int{}, delays: map[string]int{}}
	r.backend = vh.NewRawBackend(func(rq *vh.RawRequest, c net.Conn) bool {
		tok := ""
		if v := rq.Values(vh.TokenHeader); len(v) > 0 {
			tok = v[0]
		}
		r.mu.Lock()
		r.counts[tok]++
		d := r.delays[tok]
		hold := r.holds[tok]
		r.mu.Unlock()
		if hold != nil {
			// the long-outstanding request: it stays at the backend until the harness has played all list replies (a fixed
			// time would let it finish early on a busy machine, and a finished request that 1000 others have pushed out of
			// the window of remembered ids is outside what the property promises)
			select {
			case <-hold:
			case <-time.After(120 * time.Second):
			}
		} else if d > 0 {
			time.Sleep(time.Duration(d) * time.Millisecond)
		}
		body := "done:" + tok
		fmt.Fprintf(c, "HTTP/1.1 200 OK\r\nContent-Length: %d\r\n\r\n%s", len(body), body)
		return true
	})
	r.fp = vh.NewFakeProxy()
	r.fp.IdleReply = 50 * time.Millisecond
	r.meta = vh.NewFakeMeta()
	var err error
	r.agent, err = vh.StartAgent(r.meta, r.fp.URL, r.backend.Addr, nil)
	if err != nil {
		t.Fatalf("INFRA: cannot start agent: %v", err)
	}
	// warm-up
	q := r.fp.Submit("warmup", "", "GET", []byte("GET /warmup HTTP/1.1\r\nHost: x\r\n\r\n"))
	if q.Wait(30*time.Second) == nil {
		t.Fatalf("INFRA: agent did not come up: %s", r.agent.Tail(10))
	}
	rig = r
	return r
}

func closeRig() {
	rigMu.Lock()
	defer rigMu.Unlock()
	if rig != nil {
		rig.agent.Stop()
		rig.fp.Close()
		rig.meta.Close()
		rig.backend.Close()
		rig = nil
	}
}

func runCaseA(t vh.TB, c *CaseA) vh.Outcome {
	r := getRig(t)
	o := vh.Outcome{}
	r.mu.Lock()
	r.ctr++
	run := r.ctr
	r.mu.Unlock()
	ids := make([]string, c.N)
	toks := make([]string, c.N)
	reqs := make([]*vh.FPRequest, c.N)
	fetchDelay := map[string]int{}
	uploadDelay := map[string]int{}
	for i := 0; i < c.N; i++ {
		ids[i] = fmt.Sprintf("id-%d-%d", run, i)
		toks[i] = fmt.Sprintf("c04-%d-%d", run, i)
		wire := fmt.Sprintf("POST /c04/%s HTTP/1.1\r\nHost: c04.example\r\n%s: %s\r\nContent-Length: 3\r\n\r\nabc", toks[i], vh.TokenHeader, toks[i])
		reqs[i] = r.fp.Add(ids[i], "", "POST", []byte(wire))
		fetchDelay[ids[i]] = c.FetchDelayMs[i%len(c.FetchDelayMs)]
		uploadDelay[ids[i]] = c.UploadDelay[i%len(c.UploadDelay)]
		r.mu.Lock()
		r.delays[toks[i]] = c.BackendMs[i%len(c.BackendMs)]
		if c.N > 1000 && i == 0 {
			if r.holds == nil {
				r.holds = map[string]chan struct{}{}
			}
			r.holds[toks[i]] = make(chan struct{})
		}
		r.mu.Unlock()
	}
	r.fp.SetFetchHook(func(q *vh.FPRequest, w http.ResponseWriter, rq *http.Request) bool {
		if d := fetchDelay[q.ID]; d > 0 {
			time.Sleep(time.Duration(d) * time.Millisecond)
		}
		return false
	})
	faulty := map[string]bool{}
	for _, ix := range c.FailUploads {
		if ix >= 0 && ix < c.N {
			faulty[ids[ix]] = true
		}
	}
	var fmu sync.Mutex
	droppedUploads := map[string]int{}
	r.fp.SetUploadHook(func(q *vh.FPRequest, w http.ResponseWriter, rq *http.Request) bool {
		if d := uploadDelay[q.ID]; d > 0 {
			time.Sleep(time.Duration(d) * time.Millisecond)
		}
		if faulty[q.ID] {
			fmu.Lock()
			n := droppedUploads[q.ID]
			droppedUploads[q.ID]++
			fmu.Unlock()
			if n < 3 {
				// the upload is read and the connection closed without any answer
				io.Copy(io.Discard, rq.Body)
				if conn, _, err := http.NewResponseController(w).Hijack(); err == nil {
					conn.Close()
				}
				return true
			}
		}
		return false
	})
	listed := make([]int, c.N)
	for ri, rep := range c.Replies {
		var out []string
		for _, ix := range rep {
			if ix == -1 {
				for i := range ids {
					out = append(out, ids[i])
					listed[i]++
				}
			} else if ix >= 0 && ix < c.N {
				out = append(out, ids[ix])
				listed[ix]++
			}
		}
		r.fp.List(out...)
		// wait until the agent has picked the reply up
		deadline := time.Now().Add(20 * time.Second)
		for r.fp.QueueLen() > 0 && time.Now().Before(deadline) {
			time.Sleep(time.Millisecond)
		}
		if r.fp.QueueLen() > 0 {
			o.Inconclusive = "agent stopped polling: " + r.agent.Tail(5)
			if !r.agent.Alive() || r.agent.FlagCount() > 0 {
				o.Err = fmt.Errorf("agent died or reported a race while handling list replies: %v\n%s", r.agent.Flags(), r.agent.Tail(10))
			}
			closeRig()
			return o
		}
		if g := c.GapsMs[ri%len(c.GapsMs)]; g > 0 {
			time.Sleep(time.Duration(g) * time.Millisecond)
		}
	}
	// all list replies have been played: the long-outstanding request may finish now
	r.mu.Lock()
	if h := r.holds[toks[0]]; h != nil {
		time.AfterFunc(150*time.Millisecond, func() { close(h) })
		delete(r.holds, toks[0])
	}
	r.mu.Unlock()
	relisted := false
	for i := range listed {
		if listed[i] >= 2 {
			relisted = true
		}
	}
	o.NonTrivial = relisted
	if relisted {
		o.Classes = append(o.Classes, "id-listed-twice-or-more")
	}
	if c.N > 1000 {
		o.Classes = append(o.Classes, "request-outstanding-while-1000-others-come-and-go")
	} else if c.N >= 999 {
		o.Classes = append(o.Classes, "dedup-window-boundary")
	} else if c.N > 10 {
		o.Classes = append(o.Classes, "more-than-10-outstanding")
	}
	if len(faulty) > 0 {
		o.Classes = append(o.Classes, "upload-of-a-request-fails-three-times")
		// once the agent has given up on those uploads the proxy, which has no response on record, lists the requests again
		for deadline := time.Now().Add(15 * time.Second); time.Now().Before(deadline); time.Sleep(5 * time.Millisecond) {
			done := true
			fmu.Lock()
			for id := range faulty {
				for i := range ids {
					if ids[i] == id && listed[i] > 0 && droppedUploads[id] < 3 {
						done = false
					}
				}
			}
			fmu.Unlock()
			if done {
				break
			}
		}
		for k := 0; k < 2; k++ {
			time.Sleep(100 * time.Millisecond)
			var again []string
			for i := range ids {
				if faulty[ids[i]] && listed[i] > 0 {
					again = append(again, ids[i])
					listed[i]++
				}
			}
			r.fp.List(again...)
			for deadline := time.Now().Add(20 * time.Second); r.fp.QueueLen() > 0 && time.Now().Before(deadline); time.Sleep(time.Millisecond) {
			}
		}
		time.Sleep(300 * time.Millisecond)
	}
	// every listed request must complete
	for i := range reqs {
		if listed[i] == 0 || faulty[ids[i]] {
			continue
		}
		if up := reqs[i].Wait(30 * time.Second); up == nil {
			o.Err = fmt.Errorf("request %d (%s) was listed %d times and served without error but no response was uploaded within 30s (fetches=%d, backend invocations=%d)",
				i, ids[i], listed[i], reqs[i].FetchCount(), r.count(toks[i]))
			o.TimedOut = true
			return o
		}
	}
	if len(c.FinalRelist) > 0 {
		var again []string
		for _, ix := range c.FinalRelist {
			if ix >= 0 && ix < c.N && listed[ix] > 0 && !faulty[ids[ix]] {
				again = append(again, ids[ix])
				listed[ix]++
			}
		}
		if len(again) > 0 {
			o.Classes = append(o.Classes, "id-listed-again-after-its-response-was-uploaded")
			for k := 0; k < 2; k++ {
				r.fp.List(again...)
				for deadline := time.Now().Add(20 * time.Second); r.fp.QueueLen() > 0 && time.Now().Before(deadline); time.Sleep(time.Millisecond) {
				}
				time.Sleep(50 * time.Millisecond)
			}
			time.Sleep(200 * time.Millisecond)
		}
	}
	// settle: give duplicates a chance to show up
	time.Sleep(60 * time.Millisecond)
	if r.agent.FlagCount() > 0 || !r.agent.Alive() {
		o.Err = fmt.Errorf("agent died or reported: %v", r.agent.Flags())
		closeRig()
		return o
	}
	for i := range reqs {
		n := r.count(toks[i])
		want := 0
		if listed[i] > 0 {
			want = 1
		}
		if n != want {
			o.Err = fmt.Errorf("request %d (%s) was listed %d times and forwarded to the backend %d times (want %d); fetches=%d uploads=%d",
				i, ids[i], listed[i], n, want, reqs[i].FetchCount(), reqs[i].UploadCount())
			return o
		}
		if faulty[ids[i]] {
			continue // (whether a response eventually arrives for a request whose uploads failed is not promised)
		}
		if u := reqs[i].UploadCount(); u != want {
			o.Err = fmt.Errorf("request %d (%s) was listed %d times and its response uploaded %d times (want %d)", i, ids[i], listed[i], u, want)
			return o
		}
	}
	for i := range reqs {
		r.fp.Forget(ids[i])
		r.mu.Lock()
		delete(r.counts, toks[i])
		delete(r.delays, toks[i])
		r.mu.Unlock()
	}
	return o
}

func (r *agentRig) count(tok string) int {
	r.mu.Lock()
	defer r.mu.Unlock()
	return r.counts[tok]
}

func TestPropAgentDedup(t *testing.T) {
	defer closeRig()
	vh.Rapid(t, vh.Scale(150, 3000), func(rt *rapid.T) {
		c := genCaseA(rt)
		recA.Check(rt, &c, func() vh.Outcome { return vh.Confirm(func(int) vh.Outcome { return runCaseA(rt, &c) }) })
	})
}

// ---------------------------------------------------------------- part B

type CaseB struct {
	Pollers     int   `json:"pollers"`
	Clients     int   `json:"clients"`
	GapsMs      []int `json:"gaps_ms"`
	PollGap     []int `json:"poll_gap_ms"`
	Procs       int   `json:"gomaxprocs"`
	FetchPar    bool  `json:"fetch_in_parallel"`
	PollDelayMs int   `json:"pollers_start_after_ms,omitempty"`
	// SlowBodyMs > 0: client 0 sends half of a 2000-byte body, pauses that long and sends the rest; whoever fetches its
	// request is kept waiting meanwhile (the pollers go on polling)
	SlowBodyMs int `json:"client0_body_pause_ms,omitempty"`
}

func genCaseB(t *rapid.T) CaseB {
	if rapid.IntRange(0, 7).Draw(t, "burst") == 0 {
		// many clients queue up while nobody polls (agent restarting or backing off), then the pollers start
		return CaseB{Pollers: rapid.IntRange(1, 4).Draw(t, "bpollers"), Clients: rapid.SampledFrom([]int{99, 100, 101, 130, 250}).Draw(t, "bclients"),
			GapsMs: []int{0}, PollGap: []int{0}, Procs: rapid.SampledFrom([]int{1, 4, 16}).Draw(t, "bprocs"), FetchPar: true, PollDelayMs: 300}
	}
	if rapid.IntRange(0, 59).Draw(t, "slowBody") == 17 {
		return CaseB{Pollers: rapid.IntRange(2, 4).Draw(t, "spollers"), Clients: rapid.IntRange(1, 6).Draw(t, "sclients"), GapsMs: []int{0, 5}, PollGap: []int{0, 1},
			Procs: rapid.SampledFrom([]int{1, 4}).Draw(t, "sprocs"), FetchPar: true, SlowBodyMs: rapid.SampledFrom([]int{11000, 12500}).Draw(t, "slowMs")}
	}
	return CaseB{
		Pollers:  rapid.IntRange(1, 16).Draw(t, "pollers"),
		Clients:  rapid.IntRange(1, 40).Draw(t, "clients"),
		GapsMs:   rapid.SliceOfN(rapid.SampledFrom([]int{0, 0, 0, 1, 2, 10}), 1, 6).Draw(t, "gaps"),
		PollGap:  rapid.SliceOfN(rapid.SampledFrom([]int{0, 0, 1, 5}), 1, 4).Draw(t, "pollgap"),
		Procs:    rapid.SampledFrom([]int{1, 2, 4, 16}).Draw(t, "gomaxprocs"),
		FetchPar: rapid.Bool().Draw(t, "fetchPar"),
	}
}

var (
	srvMu   sync.Mutex
	servers = map[int]*srvRig{}
	bctr    int
)

type srvRig struct {
	proc *vh.Proc
	addr string
}

func getServer(t vh.TB, procs int) *srvRig {
	srvMu.Lock()
	defer srvMu.Unlock()
	if s := servers[procs]; s != nil && s.proc.Alive() {
		return s
	}
	p, addr, err := vh.StartServer(fmt.Sprintf("GOMAXPROCS=%d", procs))
	if err != nil {
		t.Fatalf("INFRA: cannot start server: %v", err)
	}
	p.Watch("foreign-agent", func(l string) bool {
		return strings.Contains(l, "Received new backend") && !strings.Contains(l, `from "b"`)
	})
	servers[procs] = &srvRig{p, addr}
	return servers[procs]
}

func closeServers() {
	srvMu.Lock()
	defer srvMu.Unlock()
	for k, s := range servers {
		s.proc.Stop()
		delete(servers, k)
	}
}

func runCaseB(t vh.TB, c *CaseB) vh.Outcome {
	s := getServer(t, c.Procs)
	o := vh.Outcome{NonTrivial: c.Pollers >= 2 && c.Clients >= 2}
	if c.Clients > 100 {
		o.Classes = append(o.Classes, "burst>100-queued-before-polling")
	}
	if o.NonTrivial {
		o.Classes = append(o.Classes, "pollers>=2,clients>=2")
	}
	srvMu.Lock()
	bctr++
	run := bctr
	srvMu.Unlock()
	ctx, cancel := context.WithCancel(context.Background())
	defer cancel()
	tr := &http.Transport{MaxIdleConnsPerHost: 64}
	defer tr.CloseIdleConnections()
	hc := &http.Client{Transport: tr}
	base := "http://" + s.addr + "/"
	// clients
	type cres struct {
		resp *vh.RawResponse
		err  error
	}
	results := make([]cres, c.Clients)
	var cwg sync.WaitGroup
	for i := 0; i < c.Clients; i++ {
		i := i
		cwg.Add(1)
		go func() {
			defer cwg.Done()
			d := 0
			for j := 0; j <= i; j++ {
				d += c.GapsMs[j%len(c.GapsMs)]
			}
			time.Sleep(time.Duration(d) * time.Millisecond)
			tok := fmt.Sprintf("c04b-%d-%d", run, i)
			body := tok
			if c.SlowBodyMs > 0 && i == 0 {
				body = tok + strings.Repeat(".", 2000-len(tok))
			}
			req := fmt.Sprintf("POST /b/%s HTTP/1.1\r\nHost: c04.example\r\n%s: %s\r\nContent-Length: %d\r\n\r\n%s", tok, vh.TokenHeader, tok, len(body), body)
			var r *vh.RawResponse
			var err error
			if c.SlowBodyMs > 0 && i == 0 {
				r, err = vh.RawRoundTripPaced(s.addr, []byte(req), len(req)-1000, time.Duration(c.SlowBodyMs)*time.Millisecond, "POST", 60*time.Second)
			} else {
				r, err = vh.RawRoundTrip(s.addr, []byte(req), "POST", 40*time.Second)
			}
			results[i] = cres{r, err}
		}()
	}
	// pollers
	var mu sync.Mutex
	var got []string
	replies := 0
	allIn := make(chan struct{})
	var once sync.Once
	var pwg sync.WaitGroup
	for p := 0; p < c.Pollers; p++ {
		p := p
		pwg.Add(1)
		go func() {
			defer pwg.Done()
			if c.PollDelayMs > 0 {
				time.Sleep(time.Duration(c.PollDelayMs) * time.Millisecond)
			}
			for round := 0; ctx.Err() == nil; round++ {
				rq, _ := http.NewRequestWithContext(ctx, "GET", base+"agent/pending", nil)
				rq.Header.Set(vh.HdrBackendID, "b")
				resp, err := hc.Do(rq)
				if err != nil {
					return
				}
				b, _ := io.ReadAll(resp.Body)
				resp.Body.Close()
				var ids []string
				if len(b) > 0 && json.Unmarshal(b, &ids) == nil && len(ids) > 0 {
					mu.Lock()
					got = append(got, ids...)
					replies++
					n := len(got)
					mu.Unlock()
					if n >= c.Clients {
						once.Do(func() { close(allIn) })
					}
				}
				if g := c.PollGap[(p+round)%len(c.PollGap)]; g > 0 {
					time.Sleep(time.Duration(g) * time.Millisecond)
				}
			}
		}()
	}
	select {
	case <-allIn:
	case <-time.After(30 * time.Second):
	}
	// a short grace period so that a duplicate hand-out can still show up
	time.Sleep(30 * time.Millisecond)
	mu.Lock()
	ids := append([]string(nil), got...)
	mu.Unlock()
	fail := func(err error) vh.Outcome {
		cancel()
		pwg.Wait()
		// unblock clients: the server process is restarted to drop the pending requests
		srvMu.Lock()
		s.proc.Stop()
		delete(servers, c.Procs)
		srvMu.Unlock()
		cwg.Wait()
		o.Err = err
		return o
	}
	if s.proc.FlagCount() > 0 || !s.proc.Alive() {
		return fail(fmt.Errorf("proxy died or reported: %v %s", s.proc.Flags(), s.proc.Tail(5)))
	}
	sorted := append([]string(nil), ids...)
	sort.Strings(sorted)
	for i := 1; i < len(sorted); i++ {
		if sorted[i] == sorted[i-1] {
			return fail(fmt.Errorf("request ID %s was handed to more than one pending-list response (%d pollers, %d clients)", sorted[i], c.Pollers, c.Clients))
		}
	}
	if len(ids) != c.Clients {
		out := fail(fmt.Errorf("%d clients are waiting but %d distinct IDs were listed within 30s (%d pollers)", c.Clients, len(ids), c.Pollers))
		out.TimedOut = true
		return out
	}
	// fetch each ID, check distinct tokens, answer each
	toks := map[string]string{}
	var fmu sync.Mutex
	var ferr error
	fetch := func(id string) {
		rq, _ := http.NewRequest("GET", base+"agent/request", nil)
		rq.Header.Set(vh.HdrBackendID, "b")
		rq.Header.Set(vh.HdrRequestID, id)
		resp, err := hc.Do(rq)
		if err != nil {
			fmu.Lock()
			ferr = fmt.Errorf("fetch of listed ID %s failed: %v", id, err)
			fmu.Unlock()
			return
		}
		defer resp.Body.Close()
		inner, err := http.ReadRequest(bufio.NewReader(resp.Body))
		if err != nil || resp.StatusCode != 200 {
			fmu.Lock()
			ferr = fmt.Errorf("fetch of listed ID %s: status %d, %v", id, resp.StatusCode, err)
			fmu.Unlock()
			return
		}
		tok := inner.Header.Get(vh.TokenHeader)
		body, _ := io.ReadAll(inner.Body)
		fmu.Lock()
		toks[id] = tok
		if string(body) != tok && !(c.SlowBodyMs > 0 && len(body) == 2000 && strings.HasPrefix(string(body), tok+".")) {
			ferr = fmt.Errorf("fetched request %s carries token %q but body %q", id, tok, body)
		}
		fmu.Unlock()
		payload := "resp-for:" + tok
		wire := fmt.Sprintf("HTTP/1.1 200 OK\r\nX-Echo-Token: %s\r\nContent-Length: %d\r\n\r\n%s", tok, len(payload), payload)
		pr, _ := http.NewRequest("POST", base+"agent/response", bytes.NewReader([]byte(wire)))
		pr.Header.Set(vh.HdrBackendID, "b")
		pr.Header.Set(vh.HdrRequestID, id)
		if presp, err := hc.Do(pr); err == nil {
			io.Copy(io.Discard, presp.Body)
			presp.Body.Close()
		}
	}
	if c.FetchPar {
		var fwg sync.WaitGroup
		for _, id := range ids {
			id := id
			fwg.Add(1)
			go func() { defer fwg.Done(); fetch(id) }()
		}
		fwg.Wait()
	} else {
		for _, id := range ids {
			fetch(id)
		}
	}
	if ferr != nil {
		return fail(ferr)
	}
	seenTok := map[string]string{}
	for id, tok := range toks {
		if other, dup := seenTok[tok]; dup {
			return fail(fmt.Errorf("IDs %s and %s both resolve to the request of client %s", id, other, tok))
		}
		seenTok[tok] = id
	}
	cwg.Wait()
	cancel()
	pwg.Wait()
	if c.SlowBodyMs > 0 {
		o.Classes = append(o.Classes, "client-uploads-its-body-slower-than-10s")
	}
	// the pollers went on polling while the requests were fetched and answered: still no ID twice
	mu.Lock()
	all := append([]string(nil), got...)
	mu.Unlock()
	sort.Strings(all)
	for i := 1; i < len(all); i++ {
		if all[i] == all[i-1] {
			o.Err = fmt.Errorf("request ID %s was handed to more than one pending-list response (%d pollers, %d clients; the second time while the requests were being fetched and answered, client 0 pausing %d ms inside its body)", all[i], c.Pollers, c.Clients, c.SlowBodyMs)
			return o
		}
	}
	for i, r := range results {
		tok := fmt.Sprintf("c04b-%d-%d", run, i)
		if _, ok := seenTok[tok]; !ok {
			o.Err = fmt.Errorf("client %d (%s) was never listed", i, tok)
			return o
		}
		if r.err != nil {
			o.Err = fmt.Errorf("client %d got no response although one was posted under its ID: %v", i, r.err)
			o.TimedOut = vh.IsTimeout(r.err)
			return o
		}
		if string(r.resp.Body) != "resp-for:"+tok || r.resp.Header.Get("X-Echo-Token") != tok {
			o.Err = fmt.Errorf("client %d (%s) received %q / token %q", i, tok, r.resp.Body, r.resp.Header.Get("X-Echo-Token"))
			return o
		}
	}
	if s.proc.FlagCount() > 0 {
		o.Err = fmt.Errorf("proxy reported: %v", s.proc.Flags())
		closeServers()
	}
	return o
}

// TestPropServerSlowBody: the slow-upload case of the server part on its own (it takes 12 s, so the general generator
// draws it rarely): every run holds at least one.
func TestPropServerSlowBody(t *testing.T) {
	defer closeServers()
	vh.Rapid(t, vh.Scale(1, 8), func(rt *rapid.T) {
		c := CaseB{Pollers: rapid.IntRange(2, 4).Draw(rt, "spollers"), Clients: rapid.IntRange(1, 6).Draw(rt, "sclients"), GapsMs: []int{0, 5}, PollGap: []int{0, 1},
			Procs: rapid.SampledFrom([]int{1, 4}).Draw(rt, "sprocs"), FetchPar: true, SlowBodyMs: rapid.SampledFrom([]int{11000, 12500}).Draw(rt, "slowMs")}
		recB.Check(rt, &c, func() vh.Outcome {
			return vh.Confirm(func(int) vh.Outcome { getServer(rt, c.Procs); return runCaseB(rt, &c) })
		})
	})
}

func TestPropServerPollers(t *testing.T) {
	defer closeServers()
	vh.Rapid(t, vh.Scale(150, 3000), func(rt *rapid.T) {
		c := genCaseB(rt)
		recB.Check(rt, &c, func() vh.Outcome {
			return vh.Confirm(func(int) vh.Outcome {
				srv := getServer(rt, c.Procs)
				o := runCaseB(rt, &c)
				if o.Err != nil && srv.proc.Watched("foreign-agent") > 0 {
					o.Inconclusive = "a foreign agent polled the proxy; discarded failure: " + o.Err.Error()
					o.Err = nil
				}
				return o
			})
		})
	})
}

func TestReplay(t *testing.T) {
	defer closeRig()
	defer closeServers()
	var a CaseA
	if ok, err := vh.ReplayCase("agent-dedup", &a); err != nil {
		t.Fatalf("INFRA: %v", err)
	} else if ok {
		for i := 0; i < vh.ReplayRuns(); i++ {
			recA.Check(t, &a, func() vh.Outcome { return vh.Confirm(func(int) vh.Outcome { return runCaseA(t, &a) }) })
		}
		return
	}
	var b CaseB
	if ok, _ := vh.ReplayCase("server-pollers", &b); ok {
		for i := 0; i < vh.ReplayRuns(); i++ {
			recB.Check(t, &b, func() vh.Outcome { return runCaseB(t, &b) })
		}
		return
	}
	t.Skip("no replay for this package")
}
