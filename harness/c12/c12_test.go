// Package c12 checks property C12: the websocket shim answers every call and survives any call order.
package c12

import (
	"encoding/json"
	"fmt"
	"net/http"
	"strings"
	"sync"
	"testing"
	"time"

	"pgregory.net/rapid"
	"verif/harness/shimrig"
	"verif/harness/vh"
)

var rec = vh.NewRecorder("C12", "call-histories",
	"call histories of 5-40 steps over 3 session slots: open, data/poll/close with {valid, unknown, already-closed, malformed body, wrong JSON "+
		"type} arguments, backend-send, backend-close, and concurrent groups of 2-6 calls on one session released from a barrier (data||close, "+
		"close||close, poll||close, data||data, mixed), against websockets.Proxy in-process under -race; oracle = state-machine model of the "+
		"session table giving the allowed status set per call, every call answered (no panic, no call left unanswered for 15 s), backend "+
		"observes a client close, polls after a backend close deliver the queued messages and then 400; non-trivial = a concurrent group "+
		"containing a close, or a backend close with queued messages; distinct = SHA-256 of the history"+
		" Later additions: messages of odd shapes, backend closes with and without immediate polling, a slow-failing open overlapping a successful one (ids of open sessions must stay unique), sessions whose backend never reads (the close call must still close the backend connection within 10 s); one fixed scenario in the background of every run: an open call whose backend takes the upgrade request and never answers it must be answered within 100 s (the backend stays silent for 150 s; the unchanged code gives up after 45 s), other opens meanwhile unaffected.")

func TestMain(m *testing.M) { vh.Main(m, rec) }

type Step struct {
	Kind  string   `json:"kind"` // open | data | poll | close | bsend | bclose | group
	Slot  int      `json:"slot"` // -1: an id that was never issued
	Arg   string   `json:"arg,omitempty"`
	N     int      `json:"n,omitempty"`
	Calls []string `json:"calls,omitempty"`
	Drain bool     `json:"drain,omitempty"` // bclose: poll until the session is reported closed right away
}

type Case struct {
	Steps []Step `json:"steps"`
}

var groups = [][]string{
	{"data", "close"}, {"close", "close"}, {"poll", "close"}, {"data", "data"}, {"data", "data", "close"}, {"close", "data", "close", "data"},
	{"data", "poll", "close", "close", "data", "data"}, {"poll", "data"}, {"close", "close", "close"},
}

func genCase(t *rapid.T) Case {
	var c Case
	n := rapid.IntRange(5, 40).Draw(t, "n")
	for i := 0; i < n; i++ {
		if rapid.IntRange(0, 9).Draw(t, "probe") == 0 {
			// the backend goes away while the client has not polled yet, and the client keeps talking
			slot := rapid.IntRange(0, 2).Draw(t, "pslot")
			c.Steps = append(c.Steps, Step{Kind: "open", Slot: slot},
				Step{Kind: "bsend", Slot: slot, N: rapid.SampledFrom([]int{0, 1, 12}).Draw(t, "pn")},
				Step{Kind: "bclose", Slot: slot},
				Step{Kind: "data", Slot: slot, Arg: "valid", N: rapid.SampledFrom([]int{5, 11, 15}).Draw(t, "pd")},
				Step{Kind: "data", Slot: slot, Arg: "valid", N: 8},
				Step{Kind: rapid.SampledFrom([]string{"close", "poll", "data"}).Draw(t, "pk"), Slot: slot, Arg: "valid", N: 3})
			continue
		}
		st := Step{Slot: rapid.SampledFrom([]int{0, 0, 1, 1, 2, -1}).Draw(t, "slot")}
		st.Kind = rapid.SampledFrom([]string{"open", "open", "data", "data", "poll", "close", "bsend", "bsend", "bclose", "group", "group", "group", "open-race", "mute-session", "bclose-then-data"}).Draw(t, "kind")
		switch st.Kind {
		case "data":
			st.Arg = rapid.SampledFrom([]string{"valid", "valid", "valid", "malformed", "wrong-type", "empty-list", "not-base64",
				"msg-empty-array", "msg-two-strings", "msg-null", "msg-object", "msg-int-array", "msg-nested-array", "msg-missing", "id-missing"}).Draw(t, "arg")
			st.N = rapid.IntRange(1, 15).Draw(t, "n")
		case "poll", "close":
			st.Arg = rapid.SampledFrom([]string{"valid", "valid", "valid", "malformed", "wrong-type"}).Draw(t, "arg")
		case "bsend":
			st.N = rapid.IntRange(1, 25).Draw(t, "nsend")
		case "mute-session":
			st.N = rapid.IntRange(0, 5).Draw(t, "nmute")
		case "bclose":
			st.Drain = rapid.Bool().Draw(t, "drain")
		case "group":
			st.Calls = rapid.SampledFrom(groups).Draw(t, "calls")
		}
		c.Steps = append(c.Steps, st)
	}
	return c
}

type slot struct {
	state   string // "", open, closed, bclosed
	id      string
	bc      *shimrig.BackendConn
	pending int  // server messages sent by the backend and not yet delivered by a poll
	gone    bool // after a backend close: a poll has already reported the session closed
	sends   *sync.WaitGroup
}

var (
	rigOnce sync.Once
	rig     *shimrig.Rig
	ctr     int
)

func in(status int, set ...int) bool {
	for _, s := range set {
		if s == status {
			return true
		}
	}
	return false
}

const callTimeout = 15 * time.Second

func runCase(c *Case) vh.Outcome {
	rigOnce.Do(func() { rig = shimrig.New(shimrig.Options{}) })
	r := rig
	o := vh.Outcome{}
	slots := make([]*slot, 3)
	for i := range slots {
		slots[i] = &slot{}
	}
	fail := func(i int, format string, args ...any) vh.Outcome {
		o.Err = fmt.Errorf("step %d (%+v): %s", i, c.Steps[i], fmt.Sprintf(format, args...))
		return o
	}
	call := func(path string, body []byte) shimrig.Result {
		return r.Call("POST", r.ShimPath+"/"+path, body, nil, callTimeout)
	}
	answered := func(res shimrig.Result) error {
		if res.Panic != nil {
			return fmt.Errorf("the handler panicked: %v", res.Panic)
		}
		if res.TimedOut {
			return fmt.Errorf("the call was not answered within %v (handler wedged)", callTimeout)
		}
		if !in(res.Status, 200, 400, 408, 500) {
			return fmt.Errorf("unexpected status %d", res.Status)
		}
		return nil
	}
	dataBody := func(id, arg string, n int) []byte {
		switch arg {
		case "malformed":
			return []byte(`[{"id":"` + id + `","msg":"x"`)
		case "wrong-type":
			return []byte(`[{"id":"` + id + `","msg":12345}]`)
		case "empty-list":
			return []byte(`[]`)
		case "not-base64":
			return []byte(`[{"id":"` + id + `","msg":["%%% not base64 %%%"]}]`)
		case "msg-empty-array":
			return []byte(`[{"id":"` + id + `","msg":[]}]`)
		case "msg-two-strings":
			return []byte(`[{"id":"` + id + `","msg":["YQ==","Yg=="]}]`)
		case "msg-null":
			return []byte(`[{"id":"` + id + `","msg":null}]`)
		case "msg-object":
			return []byte(`[{"id":"` + id + `","msg":{"a":1}}]`)
		case "msg-int-array":
			return []byte(`[{"id":"` + id + `","msg":[42]}]`)
		case "msg-nested-array":
			return []byte(`[{"id":"` + id + `","msg":[["YQ=="]]}]`)
		case "msg-missing":
			return []byte(`[{"id":"` + id + `"}]`)
		case "id-missing":
			return []byte(`[{"msg":"hello"}]`)
		}
		var msgs []json.RawMessage
		for i := 0; i < n; i++ {
			msgs = append(msgs, json.RawMessage(fmt.Sprintf(`"m%d"`, i)))
		}
		return shimrig.DataBody(id, msgs)
	}
	idBody := func(id, arg string) []byte {
		switch arg {
		case "malformed":
			return []byte(`{"id":"` + id)
		case "wrong-type":
			return []byte(`{"id":["` + id + `"]}`)
		}
		return shimrig.IDBody(id)
	}
	waitBackendClosed := func(s *slot) bool {
		select {
		case <-s.bc.Closed():
			return true
		case <-time.After(5 * time.Second):
			return false
		}
	}
	for i, st := range c.Steps {
		var s *slot
		id := "never-issued-77"
		state := ""
		if st.Slot >= 0 {
			s = slots[st.Slot]
			state = s.state
			if s.id != "" {
				id = s.id
			}
		}
		switch st.Kind {
		case "open":
			if s == nil || s.state == "open" {
				continue
			}
			ctr++
			key := fmt.Sprintf("/ws/c12-%d", ctr)
			nid, bc, res := r.Open(key, 1, nil, callTimeout)
			if err := answered(res); err != nil {
				return fail(i, "open: %v", err)
			}
			if res.Status != 200 || bc == nil {
				return fail(i, "open of a reachable backend answered %d %q", res.Status, res.Body)
			}
			for k, other := range slots {
				if k != st.Slot && other.state == "open" && other.id == nid {
					return fail(i, "a new session was given the id %q of a session that is still open", nid)
				}
			}
			*s = slot{state: "open", id: nid, bc: bc, sends: &sync.WaitGroup{}}
		case "mute-session":
			// a session of its own with a backend that only ever writes (an event stream): it never answers the close frame
			o.Classes = append(o.Classes, "close-with-backend-that-never-reads")
			ctr++
			mid, mbc, mres := r.Open(fmt.Sprintf("/mute/c12-%d", ctr), 1, nil, callTimeout)
			if err := answered(mres); err != nil || mres.Status != 200 || mbc == nil {
				return fail(i, "open of a session whose backend never reads: %v status %d", err, mres.Status)
			}
			if st.N > 0 {
				dres := r.Call("POST", r.ShimPath+"/data", dataBody(mid, "valid", st.N), nil, callTimeout)
				if err := answered(dres); err != nil || dres.Status != 200 {
					return fail(i, "data post on a session whose backend never reads: %v status %d", err, dres.Status)
				}
			}
			cres := r.Call("POST", r.ShimPath+"/close", shimrig.IDBody(mid), nil, callTimeout)
			if err := answered(cres); err != nil || cres.Status != 200 {
				return fail(i, "close of a session whose backend never reads: %v status %d", err, cres.Status)
			}
			if !mbc.ObservePeerClose(10 * time.Second) {
				return fail(i, "close answered 200 but the backend websocket (whose server end never reads and so never answers the close frame) was still open 10s later")
			}
			pres := r.Call("POST", r.ShimPath+"/poll", shimrig.IDBody(mid), nil, callTimeout)
			if err := answered(pres); err != nil || pres.Status != 400 {
				return fail(i, "poll on a closed session: %v status %d (want 400)", err, pres.Status)
			}
		case "open-race":
			// an open whose backend handshake is refused after 300 ms overlaps a successful open; a third open follows
			if s == nil || s.state == "open" {
				continue
			}
			o.Classes = append(o.Classes, "failing-open-overlaps-successful-open")
			failed := make(chan shimrig.Result, 1)
			ctr++
			go func(n int) {
				failed <- r.Call("POST", r.ShimPath+"/open", []byte(fmt.Sprintf("ws://client.example/slowfail/%d", n)), nil, callTimeout)
			}(ctr)
			time.Sleep(50 * time.Millisecond)
			ctr++
			nid, bc, res := r.Open(fmt.Sprintf("/ws/c12-%d", ctr), 1, nil, callTimeout)
			if err := answered(res); err != nil || res.Status != 200 || bc == nil {
				return fail(i, "open during a failing open: %v status %d", err, res.Status)
			}
			*s = slot{state: "open", id: nid, bc: bc, sends: &sync.WaitGroup{}}
			fres := <-failed
			if err := answered(fres); err != nil {
				return fail(i, "open with a refused handshake: %v", err)
			}
			if fres.Status == 200 {
				return fail(i, "open answered 200 although the backend refused the websocket handshake")
			}
			// the next open must not be handed the id of the session that is still open
			for k, other := range slots {
				if other.state == "open" || k == st.Slot {
					continue
				}
				ctr++
				nid2, bc2, res2 := r.Open(fmt.Sprintf("/ws/c12-%d", ctr), 1, nil, callTimeout)
				if err := answered(res2); err != nil || res2.Status != 200 || bc2 == nil {
					return fail(i, "open after a failed open: %v status %d", err, res2.Status)
				}
				for _, x := range slots {
					if x.state == "open" && x.id == nid2 {
						return fail(i, "after a failed open, a new session was given the id %q of a session that is still open", nid2)
					}
				}
				*other = slot{state: "open", id: nid2, bc: bc2, sends: &sync.WaitGroup{}}
				break
			}
		case "data":
			res := call("data", dataBody(id, st.Arg, st.N))
			if err := answered(res); err != nil {
				return fail(i, "data: %v", err)
			}
			var allowed []int
			switch {
			case st.Arg == "empty-list":
				allowed = []int{200}
			case st.Arg == "malformed", st.Arg == "wrong-type", st.Arg == "not-base64":
				allowed = []int{400}
			case strings.HasPrefix(st.Arg, "msg-"):
				// odd message shapes on any session: rejected or ignored, but always answered
				allowed = []int{200, 400}
			case st.Arg == "id-missing":
				allowed = []int{400}
			case state == "open":
				allowed = []int{200}
			case state == "bclosed" && s != nil && s.gone:
				// a poll has already reported this session closed: it is a closed session like any other
				allowed = []int{400}
			case state == "bclosed":
				allowed = []int{200, 400}
			default:
				allowed = []int{400}
			}
			if !in(res.Status, allowed...) {
				return fail(i, "data (%s) on a session in state %q answered %d %q, allowed %v", st.Arg, state, res.Status, res.Body, allowed)
			}
		case "poll":
			if st.Arg == "valid" && state == "open" && s.pending == 0 {
				continue // would legitimately block for 20 s; the 408 path is sampled separately
			}
			res := call("poll", idBody(id, st.Arg))
			if err := answered(res); err != nil {
				return fail(i, "poll: %v", err)
			}
			switch {
			case st.Arg != "valid":
				if res.Status != 400 {
					return fail(i, "poll with a %s body answered %d", st.Arg, res.Status)
				}
			case state == "open" || (state == "bclosed" && s.pending > 0 && !s.gone):
				if res.Status != 200 {
					return fail(i, "poll with %d messages queued on a session in state %q answered %d %q", s.pending, state, res.Status, res.Body)
				}
				var msgs []json.RawMessage
				if err := json.Unmarshal(res.Body, &msgs); err != nil || len(msgs) == 0 || len(msgs) > s.pending {
					return fail(i, "poll delivered %d messages (%v) with %d queued", len(msgs), err, s.pending)
				}
				s.pending -= len(msgs)
			case state == "bclosed":
				if res.Status != 400 {
					return fail(i, "poll after the backend closed and everything was delivered answered %d, expected 400", res.Status)
				}
				s.gone = true
			default:
				if res.Status != 400 {
					return fail(i, "poll naming an unknown or closed session answered %d, expected 400", res.Status)
				}
			}
		case "close":
			res := call("close", idBody(id, st.Arg))
			if err := answered(res); err != nil {
				return fail(i, "close: %v", err)
			}
			switch {
			case st.Arg != "valid":
				if res.Status != 400 {
					return fail(i, "close with a %s body answered %d", st.Arg, res.Status)
				}
			case state == "open":
				if res.Status != 200 {
					return fail(i, "close of an open session answered %d %q", res.Status, res.Body)
				}
				s.state = "closed"
				if !waitBackendClosed(s) {
					return fail(i, "the backend websocket was still open 5s after the session was closed")
				}
			case state == "bclosed":
				if !in(res.Status, 200, 400) {
					return fail(i, "close after a backend close answered %d", res.Status)
				}
				s.state = "closed"
			default:
				if res.Status != 400 {
					return fail(i, "close naming an unknown or closed session answered %d, expected 400", res.Status)
				}
			}
		case "bsend":
			if s == nil || state != "open" || st.N == 0 {
				continue
			}
			for k := 0; k < st.N; k++ {
				k, bc, wg := k, s.bc, s.sends
				wg.Add(1)
				go func() {
					defer wg.Done()
					bc.Send(shimrig.WSMsg{Data: []byte(fmt.Sprintf("s%d", k))})
				}()
			}
			s.pending += st.N
		case "bclose-then-data":
			// the backend closes (at most a few messages queued, so that the agent's reader gets to the close frame), the
			// closing handshake completes, and only then the client posts data: the session is closed, the message cannot
			// be delivered, and the call must say so
			if s == nil || state != "open" || s.pending > 5 {
				continue
			}
			o.Classes = append(o.Classes, "data-after-completed-backend-close")
			s.sends.Wait()
			s.bc.Close()
			s.state = "bclosed"
			select {
			case <-s.bc.Closed():
			case <-time.After(5 * time.Second):
				continue // the agent has not answered the close frame yet: nothing to assert
			}
			time.Sleep(100 * time.Millisecond)
			res := call("data", dataBody(id, "valid", 1))
			if err := answered(res); err != nil {
				return fail(i, "data after a backend close: %v", err)
			}
			if res.Status != 400 {
				return fail(i, "the backend closed the websocket and the closing handshake completed 100ms ago, yet a data post on that session answered %d (the message can no longer be delivered; a closed session is to be rejected with 400)", res.Status)
			}
		case "bclose":
			if s == nil || state != "open" {
				continue
			}
			if s.pending > 0 {
				o.NonTrivial = true
				o.Classes = append(o.Classes, "backend-close-with-queued-messages")
			}
			// the queued messages are on the wire before the close frame
			s.sends.Wait()
			s.bc.Close()
			s.state = "bclosed"
			if !st.Drain {
				o.Classes = append(o.Classes, "backend-close-not-polled-yet")
				continue
			}
			// drain as the property describes: queued messages, then "closed"
			for tries := 0; ; tries++ {
				res := call("poll", idBody(id, "valid"))
				if err := answered(res); err != nil {
					return fail(i, "poll after backend close: %v", err)
				}
				if res.Status == 400 {
					if s.pending > 0 {
						return fail(i, "after the backend closed, a poll reported the session closed although %d messages the backend had sent before closing were never delivered", s.pending)
					}
					s.gone = true
					break
				}
				if res.Status != 200 {
					return fail(i, "poll after a backend close answered %d", res.Status)
				}
				var msgs []json.RawMessage
				json.Unmarshal(res.Body, &msgs)
				if len(msgs) == 0 || len(msgs) > s.pending {
					return fail(i, "poll after a backend close delivered %d messages with %d queued", len(msgs), s.pending)
				}
				s.pending -= len(msgs)
				if tries > 100 {
					return fail(i, "polls after a backend close never reported the session closed")
				}
			}
		case "group":
			if s == nil || state != "open" {
				continue
			}
			hasClose := false
			for _, k := range st.Calls {
				if k == "close" {
					hasClose = true
				}
			}
			if hasClose {
				o.NonTrivial = true
				o.Classes = append(o.Classes, "concurrent-group-with-close")
			} else {
				o.Classes = append(o.Classes, "concurrent-group")
			}
			results := make([]shimrig.Result, len(st.Calls))
			var wg sync.WaitGroup
			barrier := make(chan struct{})
			for k, kind := range st.Calls {
				k, kind := k, kind
				if kind == "poll" && s.pending == 0 {
					results[k] = shimrig.Result{Status: 200}
					continue
				}
				wg.Add(1)
				go func() {
					defer wg.Done()
					<-barrier
					switch kind {
					case "data":
						results[k] = call("data", dataBody(id, "valid", 3))
					case "close":
						results[k] = call("close", idBody(id, "valid"))
					case "poll":
						results[k] = call("poll", idBody(id, "valid"))
					}
				}()
			}
			close(barrier)
			wg.Wait()
			closes200 := 0
			for k, res := range results {
				if err := answered(res); err != nil {
					return fail(i, "concurrent %s in group %v: %v", st.Calls[k], st.Calls, err)
				}
				allowed := []int{200}
				if hasClose {
					allowed = []int{200, 400}
				}
				if !in(res.Status, allowed...) {
					return fail(i, "concurrent %s in group %v answered %d %q, allowed %v", st.Calls[k], st.Calls, res.Status, res.Body, allowed)
				}
				if st.Calls[k] == "close" && res.Status == 200 {
					closes200++
				}
				if st.Calls[k] == "poll" && res.Status == 200 && len(res.Body) > 0 {
					var msgs []json.RawMessage
					json.Unmarshal(res.Body, &msgs)
					s.pending -= len(msgs)
				}
			}
			if hasClose {
				if closes200 == 0 {
					return fail(i, "no close of the group %v succeeded on an open session", st.Calls)
				}
				s.state = "closed"
				if !waitBackendClosed(s) {
					return fail(i, "the backend websocket was still open 5s after the session was closed (group %v)", st.Calls)
				}
			}
		}
	}
	for _, s := range slots {
		if s.state == "open" {
			r.Call("POST", r.ShimPath+"/close", shimrig.IDBody(s.id), nil, callTimeout)
		}
	}
	return o
}

func TestPropCallHistories(t *testing.T) {
	// In the background (it takes a minute): an open call whose backend accepts the upgrade request and then does not
	// answer it. The call must still get an HTTP answer (the unchanged code gives up on the handshake after 45 s), and
	// other sessions are not held up meanwhile.
	hung := make(chan vh.Outcome, 1)
	if vh.Shard() == 0 {
		go func() {
			o := vh.Outcome{NonTrivial: true, Classes: []string{"open-while-the-backend-never-answers-the-handshake"}}
			hr := shimrig.New(shimrig.Options{})
			start := time.Now()
			done := make(chan shimrig.Result, 1)
			go func() {
				done <- hr.Call("POST", hr.ShimPath+"/open", []byte("ws://backend.example/hang/c12"), http.Header{"X-Websocket-Shim-Version": {"1"}}, 100*time.Second)
			}()
			time.Sleep(500 * time.Millisecond)
			if id, bc, res := hr.Open("/ws/c12-beside-the-hung-open", 1, nil, callTimeout); res.Status != 200 || bc == nil {
				o.Err = fmt.Errorf("while an open call was waiting for a backend that does not answer the handshake, another open answered %d (unanswered=%v)", res.Status, res.TimedOut)
			} else {
				hr.Call("POST", hr.ShimPath+"/close", shimrig.IDBody(id), nil, callTimeout)
			}
			res := <-done
			if o.Err == nil && (res.TimedOut || res.Panic != nil) {
				o.Err = fmt.Errorf("an open call whose backend took the upgrade request and never answered it got no HTTP answer within %v (panic=%v)", time.Since(start).Round(time.Second), res.Panic)
			} else if o.Err == nil && res.Status != 500 && res.Status != 400 && res.Status != 408 {
				o.Err = fmt.Errorf("an open call whose backend never answered the handshake was answered %d", res.Status)
			}
			hung <- o
		}()
	}
	vh.Rapid(t, vh.Scale(800, 20000), func(rt *rapid.T) {
		c := genCase(rt)
		rec.Check(rt, &c, func() vh.Outcome { return runCase(&c) })
	})
	if vh.Shard() == 0 {
		c := Case{Steps: []Step{{Kind: "open-hung-handshake"}}}
		rec.Check(t, &c, func() vh.Outcome {
			select {
			case o := <-hung:
				return o
			case <-time.After(180 * time.Second):
				return vh.Outcome{Inconclusive: "the background scenario did not finish"}
			}
		})
	}
}

// TestPropPollTimeout samples the 408 path (a poll with nothing to deliver) in the thorough tier only: it takes 20 s.
func TestPropPollTimeout(t *testing.T) {
	if !vh.Thorough() || vh.Shard() != 0 {
		t.Skip("thorough tier, shard 0 only")
	}
	rigOnce.Do(func() { rig = shimrig.New(shimrig.Options{}) })
	id, bc, res := rig.Open("/ws/c12-timeout", 1, nil, callTimeout)
	if res.Status != 200 || bc == nil {
		t.Fatalf("INFRA: open failed")
	}
	c := Case{Steps: []Step{{Kind: "poll-timeout"}}}
	rec.Check(t, &c, func() vh.Outcome {
		start := time.Now()
		res := rig.Call("POST", rig.ShimPath+"/poll", shimrig.IDBody(id), nil, 40*time.Second)
		o := vh.Outcome{Classes: []string{"poll-timeout-408"}}
		if res.Panic != nil || res.TimedOut || res.Status != 408 {
			o.Err = fmt.Errorf("a poll with nothing to deliver answered %d after %v (panic=%v, unanswered=%v), expected 408", res.Status, time.Since(start), res.Panic, res.TimedOut)
		}
		return o
	})
	rig.Call("POST", rig.ShimPath+"/close", shimrig.IDBody(id), nil, callTimeout)
}

func TestReplay(t *testing.T) {
	var c Case
	ok, err := vh.ReplayCase("call-histories", &c)
	if err != nil {
		t.Fatalf("INFRA: %v", err)
	}
	if !ok {
		t.Skip("no replay for this part")
	}
	for i := 0; i < 200*vh.ReplayRuns(); i++ {
		rec.Check(t, &c, func() vh.Outcome { return runCase(&c) })
	}
}
