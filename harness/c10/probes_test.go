package c10

import (
	"fmt"
	"net/http"
	"net/http/httptest"
	"strings"
	"testing"
	"time"

	"github.com/google/inverting-proxy/agent/sessions"
	"verif/harness/vh"
)

// One fixed scenario that goes beyond the generated histories, whose client cookies have simple token values: values that
// browsers send but Go's strict cookie parser drops or rewrites. It was first recorded as known finding F10d and now
// guards the repair (DESIGN.md 8.10).
var recPK = vh.NewRecorder("C10", "probe-client-cookie-values",
	"one fixed scenario (defect F10d, repaired): with session tracking enabled a client sends its own cookies with values outside "+
		"Go's strict grammar (JSON text, non-ASCII, a name without '='); the backend must receive them as the client sent them")

type CookieProbe struct {
	Cookie string `json:"cookie_header"`
}

func runProbeCookies(c *CookieProbe) (o vh.Outcome) {
	o.NonTrivial = true
	cache := sessions.NewCache(cookieName, time.Hour, 10, true)
	var got []string
	h := cache.SessionHandler(http.HandlerFunc(func(w http.ResponseWriter, r *http.Request) {
		got = r.Header.Values("Cookie")
		w.WriteHeader(200)
	}), nil)
	req := httptest.NewRequest("GET", "http://a.example/", nil)
	req.Header.Set("Cookie", c.Cookie)
	h.ServeHTTP(vh.NewPlainWriter(), req)
	if strings.Join(got, "; ") != c.Cookie {
		o.Err = fmt.Errorf("the client sent Cookie: %s (no session cookie among them); with session tracking enabled the backend received %q", c.Cookie, got)
	}
	return
}

func TestPropProbeClientCookieValues(t *testing.T) {
	c := CookieProbe{Cookie: `prefs={"theme":"dark"}; name=José; seen; plain=1`}
	recPK.Check(t, &c, func() vh.Outcome { return runProbeCookies(&c) })
}
