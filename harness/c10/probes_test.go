package c10

import (
	"fmt"
	"net/http"
	"net/http/httptest"
	"strings"
	"testing"
	"time"

	"github.com/google/inverting-proxy/agent/sessions"
	"verif/harness/vh"
)

// Probe for a defect that is recorded in /verif/known_findings.json and not repaired (DESIGN.md 8.10). The generated
// histories of this package give the client's own cookies simple token values, which is the region where the property
// holds; this one fixed scenario uses values that browsers send but Go's strict cookie parser drops or rewrites.
var recPK = vh.NewRecorder("C10", "probe-client-cookie-values",
	"one fixed scenario (known finding F10d): with session tracking enabled a client sends its own cookies with values outside "+
		"Go's strict grammar (JSON text, non-ASCII, a name without '='); the backend must receive them as the client sent them")

type CookieProbe struct {
	Cookie string `json:"cookie_header"`
}

func runProbeCookies(c *CookieProbe) (o vh.Outcome) {
	o.NonTrivial = true
	cache := sessions.NewCache(cookieName, time.Hour, 10, true)
	var got []string
	h := cache.SessionHandler(http.HandlerFunc(func(w http.ResponseWriter, r *http.Request) {
		got = r.Header.Values("Cookie")
		w.WriteHeader(200)
	}), nil)
	req := httptest.NewRequest("GET", "http://a.example/", nil)
	req.Header.Set("Cookie", c.Cookie)
	h.ServeHTTP(vh.NewPlainWriter(), req)
	if strings.Join(got, "; ") != c.Cookie {
		o.Err = fmt.Errorf("KNOWN-PROBE F10d: the client sent Cookie: %s (no session cookie among them); with session tracking enabled the backend received %q", c.Cookie, got)
	}
	return
}

func TestPropProbeClientCookieValues(t *testing.T) {
	c := CookieProbe{Cookie: `prefs={"theme":"dark"}; name=José; seen; plain=1`}
	recPK.Check(t, &c, func() vh.Outcome { return runProbeCookies(&c) })
}
