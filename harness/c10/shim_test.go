package c10

import (
	"fmt"
	"net/http"
	"net/http/httptest"
	"strings"
	"testing"
	"time"

	"github.com/google/inverting-proxy/agent/sessions"
	"pgregory.net/rapid"
	"verif/harness/shimrig"
	"verif/harness/vh"
)

// Fifth part: session tracking together with the websocket shim, wired as agent.go wires them (the session handler
// wraps the shim's open handler): what the backend sees on a websocket handshake belongs to the opener's session.
var recW = vh.NewRecorder("C10", "shim-handshakes",
	"histories of 2-12 shim open requests by 2-4 sessions (with or without a client cookie of their own, after 0-2 plain "+
		"requests in which the backend set session cookies) through websockets.Proxy with the session handler around its open "+
		"handler, against a backend that sets a cookie tagged with the opener in every handshake response; oracle: a handshake "+
		"request carries the opener's own client cookies and the cookies set for its session in plain responses, never a cookie "+
		"tagged with another session and never the session cookie; non-trivial = at least two sessions open; distinct = SHA-256 of the case")

type ShimOpen struct {
	Session   int  `json:"session"`
	OwnCookie bool `json:"own_cookie"`
	PlainSet  int  `json:"plain_requests_before"` // plain requests of this session before the open, each answered with a Set-Cookie
}

type ShimCase struct {
	Opens []ShimOpen `json:"opens"`
}

var shimCtr int

func runShimCase(c *ShimCase) vh.Outcome {
	o := vh.Outcome{}
	cache := sessions.NewCache(cookieName, time.Hour, 1000, true)
	plain := cache.SessionHandler(http.HandlerFunc(func(w http.ResponseWriter, r *http.Request) {
		if n := r.Header.Get("X-Set"); n != "" {
			w.Header().Add("Set-Cookie", "p"+n+"="+r.Header.Get("X-Tag")+".p; Path=/")
		}
		w.WriteHeader(200)
	}), nil)
	rig := shimrig.New(shimrig.Options{OpenWrapper: cache.SessionHandler})
	defer rig.Close()
	rig.Wrapped = plain.ServeHTTP
	ids := map[int]string{}
	stored := map[int][]string{}
	used := map[int]bool{}
	for i, op := range c.Opens {
		shimCtr++
		tag := fmt.Sprintf("S%d", op.Session)
		used[op.Session] = true
		if ids[op.Session] == "" {
			w := vh.NewPlainWriter()
			rq := httptest.NewRequest("GET", "http://client.example/hello", nil)
			rq.Header.Set("X-Tag", tag)
			rig.Handler.ServeHTTP(w, rq)
			for _, ck := range (&http.Response{Header: w.Sent}).Cookies() {
				if ck.Name == cookieName {
					ids[op.Session] = ck.Value
				}
			}
			if ids[op.Session] == "" {
				o.Err = fmt.Errorf("step %d: no session cookie was issued to a client without one", i)
				return o
			}
		}
		for k := 0; k < op.PlainSet; k++ {
			rq := httptest.NewRequest("GET", "http://client.example/plain", nil)
			rq.Header.Set("X-Tag", tag)
			name := fmt.Sprint(len(stored[op.Session]))
			rq.Header.Set("X-Set", name)
			rq.Header.Set("Cookie", cookieName+"="+ids[op.Session])
			rig.Handler.ServeHTTP(vh.NewPlainWriter(), rq)
			stored[op.Session] = append(stored[op.Session], "p"+name+"="+tag+".p")
		}
		hdr := http.Header{"X-Tag": {tag}}
		ck := cookieName + "=" + ids[op.Session]
		if op.OwnCookie {
			ck += "; own=" + tag + ".c"
		}
		hdr.Set("Cookie", ck)
		key := fmt.Sprintf("/wscookie/c10-%d", shimCtr)
		id, bc, res := rig.Open(key, 1, hdr, 10*time.Second)
		if res.Status != 200 || bc == nil {
			o.Err = fmt.Errorf("step %d: shim open answered %d %q", i, res.Status, res.Body)
			return o
		}
		for _, sc := range res.Header.Values("Set-Cookie") {
			if !strings.HasPrefix(sc, cookieName+"=") {
				o.Err = fmt.Errorf("step %d: the answer to a shim open request carried the backend cookie %q", i, sc)
				return o
			}
		}
		seen := map[string]bool{}
		for _, hc := range bc.Request.Cookies() {
			seen[hc.Name+"="+hc.Value] = true
			if hc.Name == cookieName {
				o.Err = fmt.Errorf("step %d: the websocket handshake carried the session cookie itself", i)
				return o
			}
			if tg := strings.SplitN(hc.Value, ".", 2)[0]; strings.HasPrefix(tg, "S") && tg != tag {
				o.Err = fmt.Errorf("step %d: session %s opened a websocket and the handshake carried cookie %s=%s, which belongs to session %s (handshake Cookie: %q)", i, tag, hc.Name, hc.Value, tg, bc.Request.Header.Values("Cookie"))
				return o
			}
		}
		want := append([]string(nil), stored[op.Session]...)
		if op.OwnCookie {
			want = append(want, "own="+tag+".c")
		}
		for _, wv := range want {
			if !seen[wv] {
				o.Err = fmt.Errorf("step %d: the handshake of session %s lacks cookie %s (handshake Cookie: %q)", i, tag, wv, bc.Request.Header.Values("Cookie"))
				return o
			}
		}
		rig.Call("POST", rig.ShimPath+"/close", shimrig.IDBody(id), nil, 5*time.Second)
	}
	o.NonTrivial = len(used) >= 2
	return o
}

func TestPropShimHandshakes(t *testing.T) {
	vh.Rapid(t, vh.Scale(40, 600), func(rt *rapid.T) {
		var c ShimCase
		n := rapid.IntRange(2, 12).Draw(rt, "n")
		ns := rapid.IntRange(2, 4).Draw(rt, "sessions")
		for i := 0; i < n; i++ {
			c.Opens = append(c.Opens, ShimOpen{Session: rapid.IntRange(1, ns).Draw(rt, "session"), OwnCookie: rapid.IntRange(0, 2).Draw(rt, "own") == 0,
				PlainSet: rapid.SampledFrom([]int{0, 0, 0, 1, 2}).Draw(rt, "plain")})
		}
		recW.Check(rt, &c, func() vh.Outcome { return runShimCase(&c) })
	})
}
