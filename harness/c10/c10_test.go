// Package c10 checks property C10: session tracking hides backend cookies and never mixes sessions.
package c10

import (
	"fmt"
	"net/http"
	"net/http/cookiejar"
	"net/http/httptest"
	"net/url"
	"strings"
	"sync"
	"testing"
	"time"

	"github.com/google/inverting-proxy/agent/sessions"
	"golang.org/x/net/publicsuffix"
	"pgregory.net/rapid"
	"verif/harness/vh"
)

var (
	recH = vh.NewRecorder("C10", "session-histories",
		"request histories of up to 40 steps over 4 session slots plus anonymous and forged session ids, hosts {a.example, b.a.example, "+
			"other.test}, paths {/, /p, /p/q, /p/q/r}, backend Set-Cookie operations (set, overwrite, delete via Max-Age=0 or past Expires, "+
			"Path- and Domain-scoped incl. foreign domains, Secure, HttpOnly, several at once) and client-supplied extra cookies, against the "+
			"sessions.Cache handler in-process; cache limit, lifetime and the SSL test override are generated; differential oracle = one "+
			"independent net/http/cookiejar (same public-suffix list) per session id plus session tags embedded in every cookie value; "+
			"non-trivial = a request in a session that already has stored cookies, after a request of another session; distinct = SHA-256 of the history"+
			" Later additions: paths and cookie Path attributes with trailing slashes, empty and dot segments; Set-Cookie lines a strict parser skips; 1xx interim responses in front of the final response.")
	recS = vh.NewRecorder("C10", "concurrent-sessions",
		"8-32 goroutines x 20-100 requests each over generated same/different session assignments, all at once, against one sessions.Cache "+
			"handler under -race; oracle: no race/fatal, the backend never sees a cookie tagged with another session and never the session "+
			"cookie, a client never receives a backend cookie; non-trivial = at least two goroutines share a session and at least two differ")
)

func TestMain(m *testing.M) { vh.Main(m, recH, recS, recPK, recF, recW) }

const cookieName = "agent-session"

type CookieOp struct {
	Name     string `json:"name"`
	Delete   string `json:"delete,omitempty"` // "", "maxage", "expires"
	Path     string `json:"path,omitempty"`
	Domain   string `json:"domain,omitempty"`
	Secure   bool   `json:"secure,omitempty"`
	HttpOnly bool   `json:"http_only,omitempty"`
	MaxAge   int    `json:"max_age,omitempty"`
}

type Step struct {
	Session int        `json:"session"` // -1 anonymous, 0..3 slot, 9 forged id
	Host    string     `json:"host"`
	Path    string     `json:"path"`
	Set     []CookieOp `json:"set,omitempty"`
	Extra   []string   `json:"extra,omitempty"`          // client's own cookies "k=v"
	RawSet  []string   `json:"raw_set_cookie,omitempty"` // Set-Cookie lines browsers accept but a strict parser may skip
	Dup     bool       `json:"dup_session_cookie,omitempty"`
	Interim int        `json:"interim_status,omitempty"` // the backend's final response is preceded by this 1xx response (as httputil.ReverseProxy relays it)
}

type Case struct {
	Limit      int    `json:"limit"`
	LifetimeS  int    `json:"lifetime_s"`
	DisableSSL bool   `json:"disable_ssl"`
	Steps      []Step `json:"steps"`
}

var (
	hosts   = []string{"a.example", "b.a.example", "other.test", "a.example:8443"}
	paths   = []string{"/", "/p", "/p/q", "/p/q/r", "/other", "/p/", "/p/q/", "/other/", "/p//q", "/p/./q"}
	cnames  = []string{"sid", "pref", "csrf", "theme", "cart"}
	cpaths  = []string{"", "/", "/p", "/p/q", "/nomatch", "/p/", "/p/q/", ""}
	domains = []string{"", "", "a.example", "b.a.example", "example", "other.test", ".a.example"}
)

func genCase(t *rapid.T) Case {
	c := Case{
		Limit:      rapid.SampledFrom([]int{3, 5, 20, 50}).Draw(t, "limit"),
		LifetimeS:  rapid.SampledFrom([]int{60, 3600, 43200}).Draw(t, "lifetime"),
		DisableSSL: rapid.Bool().Draw(t, "disableSSL"),
	}
	n := rapid.IntRange(2, 40).Draw(t, "nsteps")
	for i := 0; i < n; i++ {
		s := Step{
			Session: rapid.SampledFrom([]int{-1, 0, 0, 1, 1, 2, 3, 9}).Draw(t, "session"),
			Host:    rapid.SampledFrom(hosts).Draw(t, "host"),
			Path:    rapid.SampledFrom(paths).Draw(t, "path"),
		}
		ns := rapid.SampledFrom([]int{0, 0, 1, 1, 2, 3}).Draw(t, "nset")
		for j := 0; j < ns; j++ {
			op := CookieOp{
				Name:     rapid.SampledFrom(cnames).Draw(t, "cname"),
				Path:     rapid.SampledFrom(cpaths).Draw(t, "cpath"),
				Domain:   rapid.SampledFrom(domains).Draw(t, "cdomain"),
				Secure:   rapid.Bool().Draw(t, "secure"),
				HttpOnly: rapid.Bool().Draw(t, "httponly"),
			}
			switch rapid.IntRange(0, 5).Draw(t, "ckind") {
			case 0:
				op.Delete = "maxage"
			case 1:
				op.Delete = "expires"
			case 2:
				op.MaxAge = 3600
			}
			s.Set = append(s.Set, op)
		}
		if rapid.IntRange(0, 5).Draw(t, "exotic") == 0 {
			s.RawSet = rapid.SliceOfN(rapid.SampledFrom([]string{"prefs[theme]=dark; Path=/", `state={"user":"alice"}`, "name=Jos\u00e9", "=novalue", "a b=c", "quoted=\"x y\"; HttpOnly",
				"noequals", "k=v; Max-Age=abc", "k2=v2; Expires=yesterday", ";", "sp ace=1; Path=/"}), 1, 3).Draw(t, "rawset")
		}
		ne := rapid.SampledFrom([]int{0, 0, 1, 2}).Draw(t, "nextra")
		for j := 0; j < ne; j++ {
			s.Extra = append(s.Extra, rapid.SampledFrom([]string{"own", "lang", "sid", "x"}).Draw(t, "ename")+"="+rapid.StringMatching(`[a-z0-9]{1,6}`).Draw(t, "evalue"))
		}
		if rapid.IntRange(0, 7).Draw(t, "interim") == 0 {
			s.Interim = rapid.SampledFrom([]int{103, 102, 100}).Draw(t, "interimStatus")
		}
		c.Steps = append(c.Steps, s)
	}
	return c
}

func newJar() *cookiejar.Jar {
	j, _ := cookiejar.New(&cookiejar.Options{PublicSuffixList: publicsuffix.List})
	return j
}

type seen struct {
	cookies []*http.Cookie
	raw     []string
}

func pairs(cs []*http.Cookie) string {
	var p []string
	for _, c := range cs {
		p = append(p, c.Name+"="+c.Value)
	}
	return strings.Join(p, "; ")
}

func runCase(c *Case) vh.Outcome {
	o := vh.Outcome{}
	lifetime := time.Duration(c.LifetimeS) * time.Second
	cache := sessions.NewCache(cookieName, lifetime, c.Limit, c.DisableSSL)
	var cur *Step
	var curTag string
	var got seen
	seq := 0
	var setNow []*http.Cookie
	var rawNow []string
	interimNow := 0
	backend := http.HandlerFunc(func(w http.ResponseWriter, r *http.Request) {
		got = seen{cookies: r.Cookies(), raw: r.Header.Values("Cookie")}
		if interimNow != 0 {
			// what httputil.ReverseProxy does with a 1xx response of the backend
			w.Header().Set("Link", "</style.css>; rel=preload; as=style")
			w.WriteHeader(interimNow)
			w.Header().Del("Link")
		}
		for _, ck := range setNow {
			w.Header().Add("Set-Cookie", ck.String())
		}
		for _, raw := range rawNow {
			w.Header().Add("Set-Cookie", raw)
		}
		w.Header().Set("X-Backend", "1")
		w.WriteHeader(200)
		w.Write([]byte("ok"))
	})
	h := cache.SessionHandler(backend, nil)

	slotID := map[int]string{}           // session slot -> id issued by the handler
	model := map[string]*cookiejar.Jar{} // session id -> reference jar
	tagOf := map[string]string{}         // session id -> tag embedded in its cookie values
	distinct := map[string]bool{"": true}
	lastSession := ""
	for i := range c.Steps {
		st := &c.Steps[i]
		cur = st
		_ = cur
		// which session id does the client present?
		id := ""
		switch {
		case st.Session == 9:
			id = "forged-session-id"
		case st.Session >= 0:
			id = slotID[st.Session]
		}
		tagKey := id
		if id == "" {
			tagKey = fmt.Sprintf("pending-%d-%d", st.Session, i)
		}
		curTag = fmt.Sprintf("T%d", len(tagOf))
		if tg, ok := tagOf[tagKey]; ok {
			curTag = tg
		}
		// cookies the backend sets in this step
		setNow = nil
		for _, op := range st.Set {
			seq++
			ck := &http.Cookie{Name: op.Name, Value: fmt.Sprintf("%s.%d", curTag, seq), Path: op.Path, Domain: op.Domain, Secure: op.Secure, HttpOnly: op.HttpOnly}
			switch op.Delete {
			case "maxage":
				ck.MaxAge = -1
			case "expires":
				ck.Expires = time.Unix(1000000, 0)
			default:
				if op.MaxAge > 0 {
					ck.MaxAge = op.MaxAge
				}
			}
			setNow = append(setNow, ck)
		}
		rawNow = st.RawSet
		interimNow = st.Interim
		if interimNow != 0 && (len(setNow) > 0 || len(rawNow) > 0) {
			o.Classes = append(o.Classes, "set-cookie-after-interim-response")
		}
		if len(rawNow) > 0 {
			o.Classes = append(o.Classes, "exotic-set-cookie-lines")
		}
		u := &url.URL{Scheme: "https", Host: st.Host, Path: st.Path}
		req := httptest.NewRequest("GET", "http://"+st.Host+st.Path, nil)
		req.Host = st.Host
		var clientCookies []string
		clientCookies = append(clientCookies, st.Extra...)
		if id != "" {
			// the session cookie sits somewhere among the client's own cookies
			pos := i % (len(clientCookies) + 1)
			clientCookies = append(clientCookies[:pos], append([]string{cookieName + "=" + id}, clientCookies[pos:]...)...)
		}
		if len(clientCookies) > 0 {
			req.Header.Set("Cookie", strings.Join(clientCookies, "; "))
		}
		// expected at the backend: client's own cookies, then what a compliant jar holds for this session and URL
		var want []string
		want = append(want, st.Extra...)
		// the cache keeps the configured number of most recently used sessions: as long as no more ids than that have been
		// used at all (the entry "" of the set stands for requests without a session and is not one), nothing may be missing
		limited := len(distinct)-1 > c.Limit
		if id != "" {
			if model[id] == nil {
				model[id] = newJar()
				tagOf[id] = curTag
			}
			for _, ck := range model[id].Cookies(u) {
				want = append(want, ck.Name+"="+ck.Value)
			}
			distinct[id] = true
		}
		if id != "" && lastSession != "" && lastSession != id && len(model[id].Cookies(u)) > 0 {
			o.NonTrivial = true
			o.Classes = append(o.Classes, "switch-to-session-with-stored-cookies")
		}
		before := time.Now()
		w := vh.NewPlainWriter()
		h.ServeHTTP(w, req)
		after := time.Now()
		// --- backend side
		have := pairs(got.cookies)
		for _, ck := range got.cookies {
			if ck.Name == cookieName {
				return fail(o, i, "the backend received the agent's session cookie itself: Cookie %q", got.raw)
			}
			if tg := strings.SplitN(ck.Value, ".", 2)[0]; strings.HasPrefix(tg, "T") && tg != curTag {
				return fail(o, i, "session mix-up: a request of session %s (%q) reached the backend with cookie %s=%s of session %s", curTag, id, ck.Name, ck.Value, tg)
			}
		}
		if !limited && have != strings.Join(want, "; ") {
			return fail(o, i, "backend saw cookies %q; a compliant jar for this session and https://%s%s plus the client's own cookies gives %q", have, st.Host, st.Path, strings.Join(want, "; "))
		}
		if limited {
			o.Classes = append(o.Classes, "beyond-cache-limit(no-differential)")
		}
		// --- client side
		var sessionCookies []*http.Cookie
		for _, ck := range (&http.Response{Header: w.Sent}).Cookies() {
			if ck.Name != cookieName {
				return fail(o, i, "the client received a backend cookie: Set-Cookie %q", w.Sent.Values("Set-Cookie"))
			}
			sessionCookies = append(sessionCookies, ck)
		}
		if n := len(w.Sent.Values("Set-Cookie")); n != len(sessionCookies) {
			return fail(o, i, "the client received unparsable Set-Cookie lines: %q", w.Sent.Values("Set-Cookie"))
		}
		if id != "" {
			if len(sessionCookies) != 0 {
				return fail(o, i, "a client that presented a session cookie was issued another one: %q", w.Sent.Values("Set-Cookie"))
			}
		} else {
			if len(sessionCookies) != 1 {
				return fail(o, i, "a client without session cookie received %d session cookies (%q), expected exactly one", len(sessionCookies), w.Sent.Values("Set-Cookie"))
			}
			sc := sessionCookies[0]
			if !sc.HttpOnly || sc.Path != "/" || sc.Secure != !c.DisableSSL || sc.Value == "" {
				return fail(o, i, "session cookie attributes wrong: %q (want HttpOnly, Path=/, Secure=%v)", w.Sent.Values("Set-Cookie"), !c.DisableSSL)
			}
			lo, hi := before.Add(lifetime).Add(-5*time.Second), after.Add(lifetime).Add(5*time.Second)
			if sc.Expires.Before(lo) || sc.Expires.After(hi) {
				return fail(o, i, "session cookie expires at %v, expected about %v from now", sc.Expires, lifetime)
			}
			if model[sc.Value] != nil {
				return fail(o, i, "a fresh client was issued the id of an existing session")
			}
			id = sc.Value
			model[id] = newJar()
			tagOf[id] = curTag
			distinct[id] = true
			if st.Session >= 0 && st.Session != 9 {
				slotID[st.Session] = id
			}
		}
		if w.Sent.Get("X-Backend") != "1" || w.Body.String() != "ok" || w.Code != 200 {
			return fail(o, i, "response altered: status %d, headers %v", w.Code, w.Sent)
		}
		// the reference jar takes the backend's cookies
		if len(rawNow) > 0 {
			hdr := http.Header{}
			for _, ck := range setNow {
				hdr.Add("Set-Cookie", ck.String())
			}
			for _, raw := range rawNow {
				hdr.Add("Set-Cookie", raw)
			}
			model[id].SetCookies(u, (&http.Response{Header: hdr}).Cookies())
		} else if len(setNow) > 0 {
			model[id].SetCookies(u, setNow)
			o.Classes = append(o.Classes, "set-cookie")
			for _, op := range st.Set {
				if op.Delete != "" {
					o.Classes = append(o.Classes, "delete-cookie")
				}
				if op.Domain != "" {
					o.Classes = append(o.Classes, "domain-scoped")
				}
				if op.Path != "" && op.Path != "/" {
					o.Classes = append(o.Classes, "path-scoped")
				}
			}
		}
		lastSession = id
	}
	return o
}

func fail(o vh.Outcome, step int, format string, args ...any) vh.Outcome {
	o.Err = fmt.Errorf("step %d: %s", step, fmt.Sprintf(format, args...))
	return o
}

func TestPropSessionHistories(t *testing.T) {
	vh.Rapid(t, vh.Scale(1500, 40000), func(rt *rapid.T) {
		c := genCase(rt)
		recH.Check(rt, &c, func() vh.Outcome { return runCase(&c) })
	})
}

// ------------------------------------------------------------ concurrent part

type Stress struct {
	Assign   []int `json:"assign"` // goroutine -> session slot
	Requests int   `json:"requests"`
	Limit    int   `json:"limit"`
}

func genStress(t *rapid.T) Stress {
	g := rapid.IntRange(8, 32).Draw(t, "goroutines")
	ns := rapid.IntRange(1, 8).Draw(t, "sessions")
	s := Stress{Requests: rapid.IntRange(20, 100).Draw(t, "requests"), Limit: rapid.SampledFrom([]int{4, 10, 1000}).Draw(t, "limit")}
	for i := 0; i < g; i++ {
		s.Assign = append(s.Assign, rapid.IntRange(0, ns-1).Draw(t, "slot"))
	}
	return s
}

func runStress(s *Stress) vh.Outcome {
	o := vh.Outcome{}
	count := map[int]int{}
	for _, a := range s.Assign {
		count[a]++
	}
	shared := false
	for _, n := range count {
		if n >= 2 {
			shared = true
		}
	}
	o.NonTrivial = shared && len(count) >= 2
	if shared {
		o.Classes = append(o.Classes, "shared-session")
	}
	if len(count) >= 2 {
		o.Classes = append(o.Classes, "different-sessions")
	}
	cache := sessions.NewCache(cookieName, time.Hour, s.Limit, true)
	var mu sync.Mutex
	var firstErr error
	report := func(err error) {
		mu.Lock()
		if firstErr == nil {
			firstErr = err
		}
		mu.Unlock()
	}
	backend := http.HandlerFunc(func(w http.ResponseWriter, r *http.Request) {
		tag := r.Header.Get("X-Tag")
		for _, ck := range r.Cookies() {
			if ck.Name == cookieName {
				report(fmt.Errorf("the backend received the session cookie itself"))
			}
			if tg := strings.SplitN(ck.Value, ".", 2)[0]; strings.HasPrefix(tg, "S") && tg != tag {
				report(fmt.Errorf("session mix-up under concurrency: request of session %s carried cookie %s=%s", tag, ck.Name, ck.Value))
			}
		}
		w.Header().Add("Set-Cookie", (&http.Cookie{Name: "c" + r.Header.Get("X-N"), Value: tag + ".v", Path: "/"}).String())
		w.WriteHeader(200)
	})
	h := cache.SessionHandler(backend, nil)
	// one sequential request per session slot to obtain its id
	ids := map[int]string{}
	for slot := range count {
		w := vh.NewPlainWriter()
		req := httptest.NewRequest("GET", "http://a.example/", nil)
		req.Header.Set("X-Tag", fmt.Sprintf("S%d", slot))
		h.ServeHTTP(w, req)
		for _, ck := range (&http.Response{Header: w.Sent}).Cookies() {
			if ck.Name == cookieName {
				ids[slot] = ck.Value
			}
		}
	}
	var wg sync.WaitGroup
	start := make(chan struct{})
	for g, slot := range s.Assign {
		g, slot := g, slot
		wg.Add(1)
		go func() {
			defer wg.Done()
			<-start
			for i := 0; i < s.Requests; i++ {
				w := vh.NewPlainWriter()
				req := httptest.NewRequest("GET", "http://a.example/p", nil)
				req.Header.Set("X-Tag", fmt.Sprintf("S%d", slot))
				req.Header.Set("X-N", fmt.Sprint((g+i)%5))
				if i%7 != 6 { // now and then a request without session cookie
					req.Header.Set("Cookie", cookieName+"="+ids[slot])
				} else {
					req.Header.Set("X-Tag", fmt.Sprintf("S%d-anon-%d-%d", slot, g, i))
				}
				h.ServeHTTP(w, req)
				for _, ck := range (&http.Response{Header: w.Sent}).Cookies() {
					if ck.Name != cookieName {
						report(fmt.Errorf("a client received a backend cookie under concurrency: %v", w.Sent.Values("Set-Cookie")))
					}
				}
			}
		}()
	}
	close(start)
	wg.Wait()
	o.Err = firstErr
	return o
}

func TestPropConcurrentSessions(t *testing.T) {
	vh.Rapid(t, vh.Scale(60, 1500), func(rt *rapid.T) {
		s := genStress(rt)
		recS.Check(rt, &s, func() vh.Outcome { return runStress(&s) })
	})
}

func TestReplay(t *testing.T) {
	var c Case
	if ok, err := vh.ReplayCase("session-histories", &c); err != nil {
		t.Fatalf("INFRA: %v", err)
	} else if ok {
		recH.Check(t, &c, func() vh.Outcome { return runCase(&c) })
		return
	}
	var s Stress
	if ok, _ := vh.ReplayCase("concurrent-sessions", &s); ok {
		for i := 0; i < 5*vh.ReplayRuns(); i++ {
			recS.Check(t, &s, func() vh.Outcome { return runStress(&s) })
		}
		return
	}
	var fu FirstUse
	if ok, _ := vh.ReplayCase("concurrent-first-use", &fu); ok {
		for i := 0; i < 5*vh.ReplayRuns(); i++ {
			recF.Check(t, &fu, func() vh.Outcome { return runFirstUse(&fu) })
		}
		return
	}
	var sc ShimCase
	if ok, _ := vh.ReplayCase("shim-handshakes", &sc); ok {
		recW.Check(t, &sc, func() vh.Outcome { return runShimCase(&sc) })
		return
	}
	// a crash report saved by the driver has part "crash": run the stress part on its case if it parses
	t.Skip("no replay for this package")
}
