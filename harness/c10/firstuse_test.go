package c10

import (
	"fmt"
	"net/http"
	"net/http/httptest"
	"sort"
	"strings"
	"sync"
	"testing"
	"time"

	"github.com/google/inverting-proxy/agent/sessions"
	"pgregory.net/rapid"
	"verif/harness/vh"
)

// Fourth part: several requests at once in a session the cache does not hold (any more): the browser kept its session
// cookie while the agent was restarted, or the session had been evicted. Every response sets a cookie of its own;
// afterwards the session's jar must hold them all, as a single compliant jar would.
var recF = vh.NewRecorder("C10", "concurrent-first-use",
	"rounds of 2-16 goroutines released together, each sending one request that bears the same session cookie whose id the "+
		"cache does not hold (agent restarted, or session evicted), the backend answering each with a Set-Cookie of its own name; "+
		"oracle: a later request of that session carries every one of those cookies (what one compliant jar holds), none of "+
		"another session; non-trivial = every case; distinct = SHA-256 of the case")

type FirstUse struct {
	Goroutines int `json:"goroutines"`
	Rounds     int `json:"rounds"`
	SpinUs     int `json:"backend_spin_us"`
}

var firstUseCtr int

func runFirstUse(c *FirstUse) vh.Outcome {
	o := vh.Outcome{NonTrivial: true}
	cache := sessions.NewCache(cookieName, time.Hour, 100000, true)
	backend := http.HandlerFunc(func(w http.ResponseWriter, r *http.Request) {
		if n := r.Header.Get("X-N"); n != "" {
			w.Header().Add("Set-Cookie", (&http.Cookie{Name: "k" + n, Value: r.Header.Get("X-Tag") + ".v", Path: "/"}).String())
		}
		if c.SpinUs > 0 {
			for t0 := time.Now(); time.Since(t0) < time.Duration(c.SpinUs)*time.Microsecond; {
			}
		}
		w.Header().Set("X-Seen", pairs(r.Cookies()))
		w.WriteHeader(200)
	})
	h := cache.SessionHandler(backend, nil)
	for round := 0; round < c.Rounds; round++ {
		firstUseCtr++
		sid := fmt.Sprintf("11111111-2222-3333-4444-%012d", firstUseCtr)
		tag := fmt.Sprintf("S%d", firstUseCtr)
		var wg sync.WaitGroup
		start := make(chan struct{})
		for g := 0; g < c.Goroutines; g++ {
			g := g
			wg.Add(1)
			go func() {
				defer wg.Done()
				<-start
				req := httptest.NewRequest("GET", "http://a.example/", nil)
				req.Header.Set("X-Tag", tag)
				req.Header.Set("X-N", fmt.Sprint(g))
				req.Header.Set("Cookie", cookieName+"="+sid)
				h.ServeHTTP(vh.NewPlainWriter(), req)
			}()
		}
		close(start)
		wg.Wait()
		w := vh.NewPlainWriter()
		req := httptest.NewRequest("GET", "http://a.example/", nil)
		req.Header.Set("X-Tag", tag)
		req.Header.Set("Cookie", cookieName+"="+sid)
		h.ServeHTTP(w, req)
		var want []string
		for g := 0; g < c.Goroutines; g++ {
			want = append(want, fmt.Sprintf("k%d=%s.v", g, tag))
		}
		got := strings.Split(w.Sent.Get("X-Seen"), "; ")
		sort.Strings(got)
		sort.Strings(want)
		if strings.Join(got, "; ") != strings.Join(want, "; ") {
			o.Err = fmt.Errorf("%d requests at once in a session the cache did not hold, each answered with a cookie of its own; the next request of the session carried %d cookies %q instead of the %d a single jar holds (round %d)", c.Goroutines, len(got), strings.Join(got, "; "), len(want), round)
			return o
		}
	}
	return o
}

func TestPropConcurrentFirstUse(t *testing.T) {
	vh.Rapid(t, vh.Scale(40, 600), func(rt *rapid.T) {
		c := FirstUse{Goroutines: rapid.IntRange(2, 16).Draw(rt, "goroutines"), Rounds: rapid.IntRange(20, 200).Draw(rt, "rounds"),
			SpinUs: rapid.SampledFrom([]int{0, 0, 1, 5, 50}).Draw(rt, "spin")}
		recF.Check(rt, &c, func() vh.Outcome { return runFirstUse(&c) })
	})
}
