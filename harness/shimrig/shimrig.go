// Package shimrig drives the websocket shim handler (websockets.Proxy) in-process against a real
// gorilla/websocket backend owned by the harness.
package shimrig

import (
	"bytes"
	"context"
	"encoding/json"
	"fmt"
	"net"
	"net/http"
	"net/http/httptest"
	"strings"
	"sync"
	"time"

	"github.com/google/inverting-proxy/agent/metrics"
	"github.com/google/inverting-proxy/agent/websockets"
	"github.com/gorilla/websocket"
	"verif/harness/vh"
)

// WSMsg is one websocket message as sent or received by the backend.
type WSMsg struct {
	Binary bool
	Data   []byte
}

// BackendConn is the backend's end of one shimmed websocket.
type BackendConn struct {
	Key     string
	Request *http.Request
	conn    *websocket.Conn
	mu      sync.Mutex
	wmu     sync.Mutex
	recv    []WSMsg
	closed  bool
	closeCh chan struct{}
	// mute connections (backend path /mute/...): the server end never reads, so it takes no part in the closing handshake
	startRead  chan struct{}
	observeFor time.Duration
	peerClosed chan bool
}

// ObservePeerClose is for mute connections: the server end starts reading now and reports whether the agent side
// closed the connection within the given time.
func (b *BackendConn) ObservePeerClose(within time.Duration) bool {
	if b.startRead == nil {
		return false
	}
	b.observeFor = within
	close(b.startRead)
	select {
	case ok := <-b.peerClosed:
		return ok
	case <-time.After(within + 5*time.Second):
		return false
	}
}

func (b *BackendConn) Received() []WSMsg {
	b.mu.Lock()
	defer b.mu.Unlock()
	return append([]WSMsg(nil), b.recv...)
}

func (b *BackendConn) NumReceived() int {
	b.mu.Lock()
	defer b.mu.Unlock()
	return len(b.recv)
}

// Send writes one message to the agent side.
func (b *BackendConn) Send(m WSMsg) error {
	b.wmu.Lock()
	defer b.wmu.Unlock()
	t := websocket.TextMessage
	if m.Binary {
		t = websocket.BinaryMessage
	}
	b.conn.SetWriteDeadline(time.Now().Add(20 * time.Second))
	return b.conn.WriteMessage(t, m.Data)
}

// Close closes the backend side of the websocket the way a well-behaved server does: it sends a
// close frame and waits (in the background, up to 30 s) for the peer's close frame before the TCP
// connection is torn down, so that everything sent before the close frame is still delivered.
func (b *BackendConn) Close() {
	b.wmu.Lock()
	b.conn.WriteControl(websocket.CloseMessage, websocket.FormatCloseMessage(websocket.CloseNormalClosure, "bye"), time.Now().Add(time.Second))
	b.wmu.Unlock()
	go func() {
		select {
		case <-b.closeCh:
		case <-time.After(30 * time.Second):
		}
		b.conn.Close()
	}()
}

// CloseWith sends a close frame with the given code (1001 going away, 1011 internal error, ...) and tears the
// connection down shortly afterwards.
func (b *BackendConn) CloseWith(code int) {
	b.wmu.Lock()
	b.conn.WriteControl(websocket.CloseMessage, websocket.FormatCloseMessage(code, "bye"), time.Now().Add(time.Second))
	b.wmu.Unlock()
	go func() {
		select {
		case <-b.closeCh:
		case <-time.After(200 * time.Millisecond):
		}
		b.conn.Close()
	}()
}

// Abort tears the TCP connection down at once (unread data may be lost).
func (b *BackendConn) Abort() { b.conn.Close() }

// Closed reports whether the backend observed the end of the connection.
func (b *BackendConn) Closed() <-chan struct{} { return b.closeCh }

var (
	dialMu   sync.Mutex
	dials    []string
	allowed  = map[string]bool{}
	hookOnce sync.Once
)

func installDialRecorder() {
	hookOnce.Do(func() {
		websocket.DefaultDialer.NetDialContext = func(ctx context.Context, network, addr string) (net.Conn, error) {
			dialMu.Lock()
			dials = append(dials, addr)
			ok := allowed[addr]
			dialMu.Unlock()
			if !ok {
				return nil, fmt.Errorf("harness: refusing to dial %s", addr)
			}
			var d net.Dialer
			return d.DialContext(ctx, network, addr)
		}
	})
}

type Rig struct {
	Handler  http.Handler
	Server   *httptest.Server
	Host     string
	ShimPath string
	Wrapped  func(w http.ResponseWriter, r *http.Request)

	mu       sync.Mutex
	conns    map[string]*BackendConn
	arrived  chan *BackendConn
	upgrader websocket.Upgrader
	cancel   context.CancelFunc
}

type Options struct {
	Injection   bool
	RewriteHost bool
	ShimPath    string
	// RecordDials replaces websocket.DefaultDialer.NetDialContext by a recorder that refuses
	// every address other than the backend's.
	RecordDials bool
	// OpenWrapper wraps the handler of shim open requests (the agent passes its session handler here).
	OpenWrapper func(http.Handler, *metrics.MetricHandler) http.Handler
}

func New(o Options) *Rig {
	if o.ShimPath == "" {
		o.ShimPath = "shim"
	}
	r := &Rig{conns: map[string]*BackendConn{}, arrived: make(chan *BackendConn, 1024), ShimPath: "/" + strings.Trim(o.ShimPath, "/")}
	r.upgrader.CheckOrigin = func(*http.Request) bool { return true }
	r.Server = httptest.NewServer(http.HandlerFunc(func(w http.ResponseWriter, rq *http.Request) {
		switch {
		case strings.HasPrefix(rq.URL.Path, "/redir-host/"):
			// as many frameworks do: an absolute redirect built from the request's Host header
			w.Header().Set("Location", "http://"+rq.Host+"/ws/after-redirect")
			w.WriteHeader(301)
			return
		case strings.HasPrefix(rq.URL.Path, "/redir-evil/"):
			w.Header().Set("Location", "ws://evil.example:8080/ws/after-redirect")
			w.WriteHeader(307)
			return
		case strings.HasPrefix(rq.URL.Path, "/slowfail/"):
			// a handshake that is refused after a while
			time.Sleep(300 * time.Millisecond)
			http.Error(w, "no websocket here", http.StatusForbidden)
			return
		case strings.HasPrefix(rq.URL.Path, "/hang/"):
			// a backend that takes the upgrade request and does not answer it for 150 s (hung process, blocked handler)
			select {
			case <-time.After(150 * time.Second):
			case <-rq.Context().Done():
			}
			http.Error(w, "too late", http.StatusForbidden)
			return
		case strings.HasPrefix(rq.URL.Path, "/redir-rel/"):
			w.Header().Set("Location", "/ws/after-redirect")
			w.WriteHeader(302)
			return
		}
		if !websocket.IsWebSocketUpgrade(rq) {
			w.WriteHeader(200)
			w.Write([]byte("plain"))
			return
		}
		var respHdr http.Header
		if strings.HasPrefix(rq.URL.Path, "/wscookie/") {
			// a backend (or its load balancer) that sets a cookie in the handshake response, tagged with the opener
			respHdr = http.Header{"Set-Cookie": {"affinity=" + rq.Header.Get("X-Tag") + ".a; Path=/"}}
		}
		c, err := r.upgrader.Upgrade(w, rq, respHdr)
		if err != nil {
			return
		}
		c.SetReadLimit(64 << 20)
		bc := &BackendConn{Key: rq.URL.Path, Request: rq, conn: c, closeCh: make(chan struct{})}
		if strings.HasPrefix(rq.URL.Path, "/mute/") {
			bc.startRead, bc.peerClosed = make(chan struct{}), make(chan bool, 1)
		}
		slow := strings.HasPrefix(rq.URL.Path, "/slow/")
		if slow {
			// a server that reads slowly through a small receive buffer: the agent's writes meet back-pressure
			if tc, ok := c.UnderlyingConn().(*net.TCPConn); ok {
				tc.SetReadBuffer(64 << 10)
			}
		}
		r.mu.Lock()
		r.conns[bc.Key] = bc
		r.mu.Unlock()
		select {
		case r.arrived <- bc: // wakes up a waiting Open; never blocks the backend
		default:
		}
		defer close(bc.closeCh)
		defer c.Close()
		if bc.startRead != nil {
			<-bc.startRead
			raw := c.UnderlyingConn()
			raw.SetReadDeadline(time.Now().Add(bc.observeFor))
			buf := make([]byte, 4096)
			for {
				if _, err := raw.Read(buf); err != nil {
					ne, isNet := err.(interface{ Timeout() bool })
					bc.peerClosed <- !(isNet && ne.Timeout())
					return
				}
			}
		}
		for {
			if slow {
				time.Sleep(15 * time.Millisecond)
			}
			t, data, err := c.ReadMessage()
			if err != nil {
				return
			}
			bc.mu.Lock()
			bc.recv = append(bc.recv, WSMsg{Binary: t == websocket.BinaryMessage, Data: data})
			bc.mu.Unlock()
		}
	}))
	r.Host = strings.TrimPrefix(r.Server.URL, "http://")
	ctx, cancel := context.WithCancel(context.Background())
	r.cancel = cancel
	wrapped := http.HandlerFunc(func(w http.ResponseWriter, rq *http.Request) {
		if r.Wrapped != nil {
			r.Wrapped(w, rq)
			return
		}
		w.WriteHeader(200)
		w.Write([]byte("wrapped"))
	})
	openWrapper := func(h http.Handler, _ *metrics.MetricHandler) http.Handler { return h }
	if o.OpenWrapper != nil {
		openWrapper = o.OpenWrapper
	}
	h, err := websockets.Proxy(ctx, wrapped, r.Host, o.ShimPath, o.RewriteHost, o.Injection, openWrapper, nil)
	if err != nil {
		panic(err)
	}
	r.Handler = h
	if o.RecordDials {
		dialMu.Lock()
		allowed[r.Host] = true
		dialMu.Unlock()
		installDialRecorder()
	}
	return r
}

func (r *Rig) Close() {
	r.cancel()
	r.Server.CloseClientConnections()
	r.Server.Close()
}

// Conn returns the backend connection whose handshake named the given path, if any.
func (r *Rig) Conn(key string) *BackendConn {
	r.mu.Lock()
	defer r.mu.Unlock()
	return r.conns[key]
}

// ForgetConns drops the record of all backend connections seen so far.
func (r *Rig) ForgetConns() {
	r.mu.Lock()
	defer r.mu.Unlock()
	r.conns = map[string]*BackendConn{}
}

// TakeDials returns and clears the addresses handed to the network dialer (by any rig of this process).
func (r *Rig) TakeDials() []string {
	dialMu.Lock()
	defer dialMu.Unlock()
	d := dials
	dials = nil
	return d
}

// Result of one shim call.
type Result struct {
	Status   int
	Body     []byte
	Header   http.Header
	Panic    any
	TimedOut bool
}

// Call invokes the handler in-process; a panic is recorded, a call that does not return in time is reported.
func (r *Rig) Call(method, path string, body []byte, hdr http.Header, timeout time.Duration) Result {
	return r.CallHost("", method, path, body, hdr, timeout)
}

// CallHost is Call with a chosen Host of the client request.
func (r *Rig) CallHost(host, method, path string, body []byte, hdr http.Header, timeout time.Duration) Result {
	done := make(chan Result, 1)
	go func() {
		var res Result
		defer func() {
			if p := recover(); p != nil {
				res.Panic = p
			}
			done <- res
		}()
		req := httptest.NewRequest(method, "http://client.example"+path, bytes.NewReader(body))
		if host != "" {
			req.Host = host
		}
		for k, v := range hdr {
			req.Header[k] = v
		}
		w := vh.NewPlainWriter()
		r.Handler.ServeHTTP(w, req)
		res.Status = w.Code
		res.Body = w.Body.Bytes()
		res.Header = w.Sent
	}()
	select {
	case res := <-done:
		return res
	case <-time.After(timeout):
		return Result{TimedOut: true}
	}
}

// Open opens a shim session for backend path key (e.g. "/ws/abc").
func (r *Rig) Open(key string, version int, hdr http.Header, timeout time.Duration) (id string, bc *BackendConn, res Result) {
	h := http.Header{}
	for k, v := range hdr {
		h[k] = v
	}
	if version > 0 {
		h.Set("X-Websocket-Shim-Version", fmt.Sprint(version))
	}
	res = r.Call("POST", r.ShimPath+"/open", []byte("ws://client.example"+key), h, timeout)
	if res.Status != 200 {
		return "", nil, res
	}
	var sm struct {
		ID string `json:"id"`
	}
	json.Unmarshal(res.Body, &sm)
	deadline := time.After(timeout)
	for {
		r.mu.Lock()
		bc = r.conns[key]
		r.mu.Unlock()
		if bc != nil {
			return sm.ID, bc, res
		}
		select {
		case <-r.arrived:
		case <-time.After(2 * time.Millisecond):
		case <-deadline:
			return sm.ID, nil, res
		}
	}
}

// DataBody builds the body of a data post: msgs are already-encoded "msg" JSON values.
func DataBody(id string, msgs []json.RawMessage) []byte {
	type sm struct {
		ID  string          `json:"id"`
		Msg json.RawMessage `json:"msg"`
	}
	var out []sm
	for _, m := range msgs {
		out = append(out, sm{id, m})
	}
	b, _ := json.Marshal(out)
	return b
}

func IDBody(id string) []byte {
	b, _ := json.Marshal(map[string]string{"id": id})
	return b
}
