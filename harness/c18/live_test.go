package c18

import (
	"encoding/json"
	"fmt"
	"net/http"
	"strings"
	"sync"
	"testing"
	"time"

	"pgregory.net/rapid"
	"verif/harness/aerig"
	"verif/harness/vh"
)

// Second part, through the real App Engine proxy binary: what an end user is answered once the backend that served
// an earlier request of theirs is no longer live.
var recL = vh.NewRecorder("C18", "answered-then-dead",
	"the three services of the App Engine proxy binary on the fake App Engine API; a backend is registered and polled, its "+
		"user's GET (generated path, with or without Cache-Control on the response) is answered by a harness-played agent, then "+
		"the backend stops being live in a generated way (deleted / last poll moved 5m02s or 1h "+
		"into the past / left alive as the control) and the same user repeats exactly the same GET and a fresh one; oracle: both "+
		"are answered 404 unless the backend is still live, in which case they are stored for it again; non-trivial = the "+
		"backend was made dead after a response without Cache-Control; distinct = SHA-256 of the canonical case")

type LiveCase struct {
	Path      string `json:"path"`
	Cacheable bool   `json:"response_without_cache_control"`
	Death     string `json:"then"` // delete | aged-5m02s | aged-1h | alive
	Method    string `json:"method"`
}

var (
	liveMu  sync.Mutex
	liveRig *aerig.Rig
	liveCtr int
)

func getLiveRig(t vh.TB) *aerig.Rig {
	liveMu.Lock()
	defer liveMu.Unlock()
	if liveRig == nil {
		r, err := aerig.Start()
		if err != nil {
			t.Fatalf("INFRA: cannot start the App Engine proxy: %v", err)
		}
		liveRig = r
	}
	return liveRig
}

func closeLiveRig() {
	liveMu.Lock()
	defer liveMu.Unlock()
	if liveRig != nil {
		liveRig.Stop()
		liveRig = nil
	}
}

func runLive(t vh.TB, c *LiveCase) (o vh.Outcome) {
	r := getLiveRig(t)
	liveMu.Lock()
	liveCtr++
	run := liveCtr
	liveMu.Unlock()
	r.Fake.Reset()
	const backendID, agentEmail, userEmail = "live-b1", "agent1@example.com", "u1@example.com"
	admin := aerig.Identity{Email: "boss@example.com", Admin: true}
	agent := aerig.Identity{OAuthEmail: agentEmail}
	user := aerig.Identity{Email: userEmail}
	hdr := func(reqID string) http.Header {
		h := http.Header{"X-Inverting-Proxy-Backend-Id": {backendID}}
		if reqID != "" {
			h.Set("X-Inverting-Proxy-Request-Id", reqID)
		}
		return h
	}
	register := func() error {
		body, _ := json.Marshal(map[string]any{"id": backendID, "backendUser": agentEmail, "endUser": userEmail, "pathPrefixes": []string{"/app"}})
		if resp := r.Do("api", "POST", "/api/backends", nil, body, admin, 10*time.Second); resp.Err != nil || resp.Status != 200 {
			return fmt.Errorf("cannot register the backend: %v %d", resp.Err, resp.Status)
		}
		return nil
	}
	poll := func(timeout time.Duration) []string {
		resp := r.Do("agent", "GET", "/agent/pending", hdr(""), nil, agent, timeout)
		var ids []string
		if resp.Err == nil && resp.Status == 200 {
			json.Unmarshal(resp.Body, &ids)
		}
		return ids
	}
	if err := register(); err != nil {
		o.Inconclusive = err.Error()
		return
	}
	if !r.KeepAlive(backendID, agentEmail) { // the agent's first poll makes the backend live
		o.Err = fmt.Errorf("the backend's agent polled (6 polls within 8s) but the proxy recorded no last-seen time for it")
		return
	}
	uri := fmt.Sprintf("/app%s?run=%d", c.Path, run)
	get := func(target string) chan *aerig.Response {
		ch := make(chan *aerig.Response, 1)
		go func() {
			ch <- r.Do("default", c.Method, target, http.Header{"X-Client-Token": {"t"}}, nil, user, 40*time.Second)
		}()
		return ch
	}
	// 1. the request is answered by the live backend's agent
	first := get(uri)
	var ids []string
	for deadline := time.Now().Add(15 * time.Second); time.Now().Before(deadline) && len(ids) == 0; {
		ids = poll(2 * time.Second)
		select {
		case early := <-first:
			o.Err = fmt.Errorf("the backend is registered for the user and its agent has just polled, but the request was answered %d at once", early.Status)
			return
		default:
		}
	}
	if len(ids) != 1 {
		o.Inconclusive = fmt.Sprintf("the request did not show up in the backend's pending list (%v)", ids)
		return
	}
	cc := "Cache-Control: no-store\r\n"
	if c.Cacheable {
		cc = ""
	}
	body := fmt.Sprintf("served-by-%s-run-%d", backendID, run)
	wire := fmt.Sprintf("HTTP/1.1 200 OK\r\n%sContent-Length: %d\r\n\r\n%s", cc, len(body), body)
	if resp := r.Do("agent", "POST", "/agent/response", hdr(ids[0]), []byte(wire), agent, 10*time.Second); resp.Err != nil || resp.Status != 200 {
		o.Inconclusive = fmt.Sprintf("posting the response answered %d (%v)", resp.Status, resp.Err)
		return
	}
	select {
	case cr := <-first:
		if cr.Err != nil || cr.Status != 200 || string(cr.Body) != body {
			o.Err = fmt.Errorf("the user's request was answered %d %q, the agent posted 200 %q", cr.Status, cr.Body, body)
			return
		}
	case <-time.After(20 * time.Second):
		o.Inconclusive = "the client did not receive the posted response"
		return
	}
	// 2. the backend stops being live
	switch c.Death {
	case "delete":
		if resp := r.Do("api", "DELETE", "/api/backends/"+backendID, nil, nil, admin, 10*time.Second); resp.Err != nil || resp.Status != 200 {
			o.Inconclusive = fmt.Sprintf("cannot delete the backend: %d", resp.Status)
			return
		}
	case "aged-5m02s", "aged-1h":
		age := 5*time.Minute + 2*time.Second
		if c.Death == "aged-1h" {
			age = time.Hour
		}
		if !r.Fake.SetTime("backendTracker", backendID, "LastSeen", time.Now().Add(-age)) {
			o.Inconclusive = "could not age the backend's tracker"
			return
		}
	}
	live := c.Death == "alive"
	o.NonTrivial = !live && c.Cacheable && c.Method == "GET"
	o.Classes = append(o.Classes, "then-"+c.Death)
	if c.Cacheable {
		o.Classes = append(o.Classes, "response-without-cache-control")
	}
	// 3. the same request again, and one for a URL never requested before
	for _, target := range []string{uri, uri + "&fresh=1"} {
		what := "a URL never requested before"
		if target == uri {
			what = "exactly the URL answered before"
		}
		ch := get(target)
		if live {
			// the control: either answered by the proxy's own cache of the earlier response, or handed to the backend again
			var again []string
			for deadline := time.Now().Add(10 * time.Second); time.Now().Before(deadline) && len(again) == 0; {
				select {
				case cr := <-ch:
					if cr.Status == 200 && string(cr.Body) == body && target == uri && c.Cacheable && c.Method == "GET" {
						again = []string{"(cache)"}
						continue
					}
					o.Err = fmt.Errorf("the backend is live, yet the request for %s was answered %d %q", what, cr.Status, vhHead(cr.Body))
					return
				default:
				}
				again = poll(1 * time.Second)
			}
			if len(again) == 0 {
				o.Err = fmt.Errorf("the backend is live, but the request for %s neither reached its pending list nor was answered", what)
				o.TimedOut = true
				return
			}
			if again[0] != "(cache)" {
				r.Do("agent", "POST", "/agent/response", hdr(again[0]), []byte(wire), agent, 10*time.Second)
				<-ch
			}
			continue
		}
		select {
		case cr := <-ch:
			if cr.Err != nil {
				o.Inconclusive = "no answer: " + cr.Err.Error()
				return
			}
			if cr.Status != 404 {
				o.Err = fmt.Errorf("the only backend for user %s on %s is no longer live (%s), yet the request for %s was answered %d %q instead of 404",
					userEmail, uri, c.Death, what, cr.Status, vhHead(cr.Body))
				return
			}
		case <-time.After(15 * time.Second):
			o.Err = fmt.Errorf("the only backend for the user is no longer live (%s), but the request for %s was not answered within 15s (stored for a dead backend?)", c.Death, what)
			o.TimedOut = true
			return
		}
	}
	if err := r.Health(); err != nil {
		o.Err = err
		closeLiveRig()
	}
	return
}

func vhHead(b []byte) string {
	if len(b) > 60 {
		b = b[:60]
	}
	return strings.ReplaceAll(string(b), "\n", " ")
}

func genLive(t *rapid.T) LiveCase {
	return LiveCase{
		Path:      rapid.SampledFrom([]string{"/", "/notebook", "/a/b/c.html", "/x%20y"}).Draw(t, "path"),
		Cacheable: rapid.IntRange(0, 3).Draw(t, "cacheable") != 0,
		Death:     rapid.SampledFrom([]string{"delete", "aged-5m02s", "aged-1h", "alive"}).Draw(t, "then"),
		Method:    rapid.SampledFrom([]string{"GET", "GET", "GET", "POST"}).Draw(t, "method"),
	}
}

func TestPropAnsweredThenDead(t *testing.T) {
	defer closeLiveRig()
	vh.Rapid(t, vh.Scale(12, 200), func(rt *rapid.T) {
		c := genLive(rt)
		recL.Check(rt, &c, func() vh.Outcome { return vh.Confirm(func(int) vh.Outcome { return runLive(rt, &c) }) })
	})
}

func TestReplayAnsweredThenDead(t *testing.T) {
	defer closeLiveRig()
	var c LiveCase
	if ok, _ := vh.ReplayCase("answered-then-dead", &c); !ok {
		t.Skip("no replay for this part")
	}
	recL.Check(t, &c, func() vh.Outcome { return vh.Confirm(func(int) vh.Outcome { return runLive(t, &c) }) })
}
