// Package c18 checks property C18: the App Engine proxy routes to the most specific live backend.
package c18

import (
	"context"
	"fmt"
	"os"
	"sort"
	"strings"
	"testing"
	"time"

	"github.com/google/inverting-proxy/app/store"
	"github.com/google/inverting-proxy/app/types"
	"google.golang.org/appengine/v2"
	"pgregory.net/rapid"
	"verif/harness/fakeae"
	"verif/harness/vh"
)

var (
	rec = vh.NewRecorder("C18", "lookup",
		"registries of 0-6 backends with prefix lists from {'', '/', '/a', '/a/', '/a/b', '/ab', '/b'} (overlapping, nested, duplicated across "+
			"backends, empty match), end users {u1, u2, allUsers}, last-seen age per backend in {never polled, 0, 4m58s, 5m02s, 1h} (set by ageing "+
			"the stored tracker entity in the fake datastore), looked up for users {u1,u2,u3} and paths over the same alphabet extended, through "+
			"app/store's LookupBackend in-process on a wire-level fake of datastore_v3; oracle = independent longest-prefix specification giving "+
			"the set of acceptable answers, plus determinism (repetition, permuted insertion order into a fresh datastore) and a metamorphic "+
			"relation (adding a non-matching backend never changes the answer); non-trivial = at least two matching prefixes of different "+
			"length, a user-vs-shared conflict, or a dead best match; distinct = SHA-256 of the canonical case"+
			" Later additions: registration histories (registered again, or deleted and registered again, followed by another poll).")
	recX = vh.NewRecorder("C18", "lookup-exhaustive",
		"bounded-exhaustive: every registry of at most 3 single-prefix backends over the 7-prefix alphabet x end user {u1, allUsers} x {live, dead}, "+
			"looked up for user u1 on 8 paths; same oracle")
)

func TestMain(m *testing.M) {
	if os.Getenv("GAE_APPLICATION") == "" {
		os.Setenv("GAE_APPLICATION", "s~verif")
	}
	vh.Main(m, rec, recX, recL)
}

type Backend struct {
	ID       string   `json:"id"`
	EndUser  string   `json:"end_user"`
	Prefixes []string `json:"prefixes"`
	Age      string   `json:"age"` // never | 0 | 4m58s | 5m02s | 1h
	// History, when set, continues after the first registration: the same id is registered again
	// (readd-poll), or deleted and registered again (delete-add-poll), and its agent then polls once more.
	History string `json:"history,omitempty"`
}

type Case struct {
	Backends []Backend `json:"backends"`
	User     string    `json:"user"`
	Path     string    `json:"path"`
	Perm     []int     `json:"insertion_order"`
}

var (
	alphabet = []string{"/a", "/a/", "/a/b", "/", "/ab", "/b", ""}
	paths    = []string{"/a/b/c", "/a/b", "/a/", "/a", "/ab", "/abc", "/b/x", "/", "/c", "/a/bc"}
	ages     = []string{"0", "0", "4m58s", "5m02s", "never", "1h"}
)

func genCase(t *rapid.T) Case {
	var c Case
	n := rapid.IntRange(0, 6).Draw(t, "n")
	for i := 0; i < n; i++ {
		b := Backend{ID: fmt.Sprintf("b%d", i), EndUser: rapid.SampledFrom([]string{"u1", "u1", "u2", "allUsers", "allUsers"}).Draw(t, "user"),
			Age: rapid.SampledFrom(ages).Draw(t, "age")}
		b.Prefixes = rapid.SliceOfN(rapid.SampledFrom(alphabet), 1, 3).Draw(t, "prefixes")
		b.History = rapid.SampledFrom([]string{"", "", "", "readd-poll", "delete-add-poll"}).Draw(t, "history")
		c.Backends = append(c.Backends, b)
	}
	// ids in a generated order, so that datastore key order is independent of the generation order
	ids := rapid.Permutation([]string{"k3", "k1", "k5", "k0", "k4", "k2"}).Draw(t, "ids")
	for i := range c.Backends {
		c.Backends[i].ID = ids[i]
	}
	c.User = rapid.SampledFrom([]string{"u1", "u1", "u2", "u3"}).Draw(t, "lookupUser")
	c.Path = rapid.SampledFrom(paths).Draw(t, "path")
	perm := make([]int, n)
	for i := range perm {
		perm[i] = i
	}
	c.Perm = rapid.Permutation(perm).Draw(t, "perm")
	return c
}

func live(b Backend) bool { return b.History != "" || b.Age == "0" || b.Age == "4m58s" }

// spec returns the set of acceptable answers ("" stands for 404) and whether the case is non-trivial.
func spec(backends []Backend, user, path string) (map[string]bool, bool, []string) {
	var classes []string
	pick := func(endUser string) (best []Backend, lengths map[int]bool) {
		longest := -1
		lengths = map[int]bool{}
		for _, b := range backends {
			if b.EndUser != endUser {
				continue
			}
			bl := -1
			for _, p := range b.Prefixes {
				if strings.HasPrefix(path, p) {
					lengths[len(p)] = true
					if len(p) > bl {
						bl = len(p)
					}
				}
			}
			if bl < 0 {
				continue
			}
			if bl > longest {
				longest = bl
				best = nil
			}
			if bl == longest {
				best = append(best, b)
			}
		}
		return
	}
	best, lengths := pick(user)
	sharedBest, _ := pick("allUsers")
	nontrivial := false
	if len(best) > 0 && len(sharedBest) > 0 {
		nontrivial = true
		classes = append(classes, "user-vs-shared-conflict")
	}
	if len(best) == 0 {
		best, lengths = sharedBest, nil
		_, lengths = pick("allUsers")
		if len(best) > 0 {
			classes = append(classes, "shared-fallback")
		}
	}
	if len(lengths) >= 2 {
		nontrivial = true
		classes = append(classes, "prefixes-of-different-length")
	}
	acc := map[string]bool{}
	if len(best) == 0 {
		acc[""] = true
		classes = append(classes, "no-match")
	}
	for _, b := range best {
		if live(b) {
			acc[b.ID] = true
			if b.History != "" {
				classes = append(classes, "best-match-"+b.History)
			}
		} else {
			acc[""] = true
			nontrivial = true
			classes = append(classes, "dead-best-match")
		}
	}
	if len(best) >= 2 {
		classes = append(classes, "tie")
	}
	return acc, nontrivial, classes
}

type env struct {
	fake *fakeae.Fake
	ctx  context.Context
	st   types.Store
}

func newEnv() *env {
	f := fakeae.New()
	return &env{fake: f, ctx: appengine.WithAPICallFunc(context.Background(), f.CallFunc("")), st: store.NewPersistentStore()}
}

func (e *env) register(b Backend) error {
	if err := e.register1(b); err != nil {
		return err
	}
	if b.History == "" {
		return nil
	}
	if b.History == "delete-add-poll" {
		if err := e.st.DeleteBackend(e.ctx, b.ID); err != nil {
			return err
		}
	}
	if err := e.st.AddBackend(e.ctx, &types.Backend{BackendID: b.ID, BackendUser: "agent-" + b.ID, EndUser: b.EndUser, PathPrefixes: append([]string(nil), b.Prefixes...)}); err != nil {
		return err
	}
	_, err := e.st.ListPendingRequests(e.ctx, b.ID)
	return err
}

func (e *env) register1(b Backend) error {
	if err := e.st.AddBackend(e.ctx, &types.Backend{BackendID: b.ID, BackendUser: "agent-" + b.ID, EndUser: b.EndUser, PathPrefixes: append([]string(nil), b.Prefixes...)}); err != nil {
		return err
	}
	now := time.Now()
	switch b.Age {
	case "never":
		return nil
	case "0":
		// what an agent's poll does
		_, err := e.st.ListPendingRequests(e.ctx, b.ID)
		return err
	case "4m58s":
		now = now.Add(-(4*time.Minute + 58*time.Second))
	case "5m02s":
		now = now.Add(-(5*time.Minute + 2*time.Second))
	case "1h":
		now = now.Add(-time.Hour)
	}
	if _, err := e.st.ListPendingRequests(e.ctx, b.ID); err != nil {
		return err
	}
	if !e.fake.SetTime("backendTracker", b.ID, "LastSeen", now) {
		return fmt.Errorf("could not age the tracker of %s", b.ID)
	}
	return nil
}

func (e *env) lookup(user, path string) string {
	id, err := e.st.LookupBackend(e.ctx, user, path)
	if err != nil {
		return ""
	}
	return id
}

func show(acc map[string]bool) string {
	var s []string
	for k := range acc {
		if k == "" {
			k = "404"
		}
		s = append(s, k)
	}
	sort.Strings(s)
	return "{" + strings.Join(s, ", ") + "}"
}

func runCase(c *Case) vh.Outcome {
	acc, nt, classes := spec(c.Backends, c.User, c.Path)
	o := vh.Outcome{NonTrivial: nt, Classes: classes}
	e := newEnv()
	for _, b := range c.Backends {
		if err := e.register(b); err != nil {
			o.Inconclusive = "fake datastore: " + err.Error()
			return o
		}
	}
	got := e.lookup(c.User, c.Path)
	name := func(s string) string {
		if s == "" {
			return "404"
		}
		return s
	}
	if !acc[got] {
		o.Err = fmt.Errorf("lookup(user %s, path %q) answered %s; acceptable by the longest-live-prefix rule: %s (registry %+v)", c.User, c.Path, name(got), show(acc), c.Backends)
		return o
	}
	if again := e.lookup(c.User, c.Path); again != got {
		o.Err = fmt.Errorf("repeating the lookup changed the answer: %s then %s", name(got), name(again))
		return o
	}
	// same registry, inserted in another order into a fresh datastore
	if len(c.Perm) == len(c.Backends) && len(c.Backends) > 1 {
		e2 := newEnv()
		for _, i := range c.Perm {
			if err := e2.register(c.Backends[i]); err != nil {
				o.Inconclusive = "fake datastore: " + err.Error()
				return o
			}
		}
		if other := e2.lookup(c.User, c.Path); other != got {
			o.Err = fmt.Errorf("the answer depends on the insertion order of the same registry: %s vs %s (order %v, registry %+v)", name(got), name(other), c.Perm, c.Backends)
			return o
		}
	}
	// metamorphic: a backend that cannot match must not change the answer
	for _, extra := range []Backend{
		{ID: "zz-other-user", EndUser: "somebody-else", Prefixes: []string{"/", c.Path}, Age: "0"},
		{ID: "aa-no-prefix", EndUser: c.User, Prefixes: []string{c.Path + "/deeper", "/zzz"}, Age: "0"},
		{ID: "mm-shared-no-prefix", EndUser: "allUsers", Prefixes: []string{"/zzz"}, Age: "0"},
	} {
		if err := e.register(extra); err != nil {
			o.Inconclusive = "fake datastore: " + err.Error()
			return o
		}
		if after := e.lookup(c.User, c.Path); after != got {
			o.Err = fmt.Errorf("registering the unrelated backend %+v changed the answer for (user %s, path %q) from %s to %s", extra, c.User, c.Path, name(got), name(after))
			return o
		}
	}
	return o
}

func TestPropLookup(t *testing.T) {
	vh.Rapid(t, vh.Scale(3000, 60000), func(rt *rapid.T) {
		c := genCase(rt)
		rec.Check(rt, &c, func() vh.Outcome { return runCase(&c) })
	})
}

// TestPropLookupExhaustive enumerates all registries of at most 3 single-prefix backends (thorough tier, sharded).
func TestPropLookupExhaustive(t *testing.T) {
	if !vh.Thorough() {
		t.Skip("thorough tier only")
	}
	type cfg struct {
		prefix, user, age string
	}
	var cfgs []cfg
	for _, p := range alphabet {
		for _, u := range []string{"u1", "allUsers"} {
			for _, a := range []string{"0", "5m02s"} {
				cfgs = append(cfgs, cfg{p, u, a})
			}
		}
	}
	xpaths := []string{"/a/b/c", "/a/b", "/a/", "/a", "/ab", "/b/x", "/", "/c"}
	n := 0
	run := func(sel []int) {
		n++
		if n%vh.NShards() != vh.Shard() {
			return
		}
		var bs []Backend
		for i, s := range sel {
			bs = append(bs, Backend{ID: fmt.Sprintf("k%d", i), EndUser: cfgs[s].user, Prefixes: []string{cfgs[s].prefix}, Age: cfgs[s].age})
		}
		e := newEnv()
		for _, b := range bs {
			if err := e.register(b); err != nil {
				t.Fatalf("INFRA: %v", err)
			}
		}
		for _, p := range xpaths {
			c := Case{Backends: bs, User: "u1", Path: p}
			recX.Check(t, &c, func() vh.Outcome {
				acc, nt, classes := spec(bs, "u1", p)
				o := vh.Outcome{NonTrivial: nt, Classes: classes}
				if got := e.lookup("u1", p); !acc[got] {
					o.Err = fmt.Errorf("lookup(user u1, path %q) answered %q; acceptable: %s (registry %+v)", p, got, show(acc), bs)
				}
				return o
			})
		}
	}
	for a := range cfgs {
		run([]int{a})
		for b := range cfgs {
			run([]int{a, b})
			for c := range cfgs {
				run([]int{a, b, c})
			}
		}
	}
	recX.SetExhaustive(true)
}

func TestReplay(t *testing.T) {
	var c Case
	for _, part := range []string{"lookup", "lookup-exhaustive"} {
		if ok, err := vh.ReplayCase(part, &c); err != nil {
			t.Fatalf("INFRA: %v", err)
		} else if ok {
			rec.Check(t, &c, func() vh.Outcome { return runCase(&c) })
			return
		}
	}
	t.Skip("no replay for this package")
}
