package vh

import (
	"bufio"
	"bytes"
	"errors"
	"fmt"
	"io"
	"net"
	"net/http"
	"strconv"
	"strings"
	"sync"
	"sync/atomic"
	"time"
)

// HeaderField is one header line as seen on the wire.
type HeaderField struct {
	Name  string `json:"n"`
	Value string `json:"v"`
}

// RawRequest is a request as received, byte for byte, by the recording backend.
type RawRequest struct {
	Method, Target, Proto string
	Line                  string
	Fields                []HeaderField
	Body                  []byte
	Chunked               bool
	Trailers              []HeaderField
	BodyErr               error
	At                    time.Time
}

// Values returns the ordered values of a field (name compared case-insensitively).
func FieldValues(fs []HeaderField, name string) []string {
	var out []string
	for _, f := range fs {
		if strings.EqualFold(f.Name, name) {
			out = append(out, f.Value)
		}
	}
	return out
}

func (r *RawRequest) Values(name string) []string { return FieldValues(r.Fields, name) }

func readHeadLines(br *bufio.Reader) (first string, fields []HeaderField, err error) {
	line, err := readLine(br)
	if err != nil {
		return "", nil, err
	}
	first = line
	for {
		l, err := readLine(br)
		if err != nil {
			return first, fields, err
		}
		if l == "" {
			return first, fields, nil
		}
		i := strings.IndexByte(l, ':')
		if i < 0 {
			return first, fields, fmt.Errorf("malformed header line %q", l)
		}
		fields = append(fields, HeaderField{l[:i], strings.Trim(l[i+1:], " \t")})
	}
}

func readLine(br *bufio.Reader) (string, error) {
	var sb strings.Builder
	for {
		part, isPrefix, err := br.ReadLine()
		if err != nil {
			return "", err
		}
		sb.Write(part)
		if !isPrefix {
			return sb.String(), nil
		}
		if sb.Len() > 64<<20 {
			return "", errors.New("line too long")
		}
	}
}

// ReadChunked decodes a chunked body and its trailer fields; onChunk (optional) sees every chunk.
func ReadChunked(br *bufio.Reader, onChunk func([]byte)) (body []byte, trailers []HeaderField, err error) {
	var buf bytes.Buffer
	for {
		l, err := readLine(br)
		if err != nil {
			return buf.Bytes(), nil, fmt.Errorf("reading chunk size: %w", err)
		}
		if i := strings.IndexByte(l, ';'); i >= 0 {
			l = l[:i]
		}
		n, err := strconv.ParseUint(strings.TrimSpace(l), 16, 63)
		if err != nil {
			return buf.Bytes(), nil, fmt.Errorf("bad chunk size %q", l)
		}
		if n == 0 {
			break
		}
		start := buf.Len()
		if _, err := io.CopyN(&buf, br, int64(n)); err != nil {
			return buf.Bytes(), nil, fmt.Errorf("short chunk: %w", err)
		}
		if onChunk != nil {
			onChunk(buf.Bytes()[start:])
		}
		crlf, err := readLine(br)
		if err != nil || crlf != "" {
			return buf.Bytes(), nil, fmt.Errorf("missing CRLF after chunk (%q, %v)", crlf, err)
		}
	}
	for {
		l, err := readLine(br)
		if err != nil {
			return buf.Bytes(), trailers, fmt.Errorf("reading trailers: %w", err)
		}
		if l == "" {
			return buf.Bytes(), trailers, nil
		}
		i := strings.IndexByte(l, ':')
		if i < 0 {
			return buf.Bytes(), trailers, fmt.Errorf("malformed trailer line %q", l)
		}
		trailers = append(trailers, HeaderField{l[:i], strings.Trim(l[i+1:], " \t")})
	}
}

// ReadRawRequest reads one request off a connection without any normalisation.
func ReadRawRequest(br *bufio.Reader) (*RawRequest, error) {
	first, fields, err := readHeadLines(br)
	if err != nil {
		return nil, err
	}
	rq := &RawRequest{Line: first, Fields: fields, At: time.Now()}
	parts := strings.SplitN(first, " ", 3)
	if len(parts) == 3 {
		rq.Method, rq.Target, rq.Proto = parts[0], parts[1], parts[2]
	}
	te := strings.ToLower(strings.Join(rq.Values("Transfer-Encoding"), ","))
	if strings.Contains(te, "chunked") {
		rq.Chunked = true
		rq.Body, rq.Trailers, rq.BodyErr = ReadChunked(br, nil)
	} else if cl := rq.Values("Content-Length"); len(cl) > 0 {
		n, err := strconv.ParseInt(cl[0], 10, 63)
		if err != nil {
			rq.BodyErr = err
		} else {
			rq.Body = make([]byte, n)
			_, rq.BodyErr = io.ReadFull(br, rq.Body)
		}
	}
	return rq, nil
}

// RawBackend is a scripted raw-TCP HTTP/1.1 origin server owned by the harness.
type RawBackend struct {
	Ln   net.Listener
	Addr string
	// Handle is called per request; it writes the raw response to c and returns false
	// if the connection must be closed afterwards.
	Handle func(rq *RawRequest, c net.Conn) (keepAlive bool)

	Conns    atomic.Int64
	InFlight atomic.Int64
	MaxIn    atomic.Int64
	wg       sync.WaitGroup
}

func NewRawBackend(handle func(rq *RawRequest, c net.Conn) bool) *RawBackend {
	ln, err := net.Listen("tcp", "127.0.0.1:0")
	if err != nil {
		panic(err)
	}
	b := &RawBackend{Ln: ln, Addr: ln.Addr().String(), Handle: handle}
	go b.serve()
	return b
}

func (b *RawBackend) serve() {
	for {
		c, err := b.Ln.Accept()
		if err != nil {
			return
		}
		b.Conns.Add(1)
		go func() {
			defer c.Close()
			br := bufio.NewReaderSize(c, 1<<16)
			for {
				rq, err := ReadRawRequest(br)
				if err != nil {
					return
				}
				n := b.InFlight.Add(1)
				for {
					m := b.MaxIn.Load()
					if n <= m || b.MaxIn.CompareAndSwap(m, n) {
						break
					}
				}
				keep := b.Handle(rq, c)
				b.InFlight.Add(-1)
				if !keep || rq.BodyErr != nil {
					return
				}
			}
		}()
	}
}

func (b *RawBackend) Close() { b.Ln.Close() }

// RawResponse is a response as parsed by the harness's client.
type RawResponse struct {
	Status   int
	Proto    string
	Interim  []int
	Header   http.Header
	Body     []byte
	Trailer  http.Header
	BodyErr  error
	Chunked  bool
	Duration time.Duration
}

// RawRoundTrip writes req verbatim to addr and parses the response.
func RawRoundTrip(addr string, req []byte, method string, timeout time.Duration) (*RawResponse, error) {
	return RawRoundTripPaced(addr, req, 0, 0, method, timeout)
}

// RawRoundTripPaced is RawRoundTrip for a slow client: after the first splitAt bytes it pauses before it sends the rest.
func RawRoundTripPaced(addr string, req []byte, splitAt int, pause time.Duration, method string, timeout time.Duration) (*RawResponse, error) {
	start := time.Now()
	c, err := net.DialTimeout("tcp", addr, 5*time.Second)
	if err != nil {
		return nil, fmt.Errorf("dial: %w", err)
	}
	defer c.Close()
	c.SetDeadline(time.Now().Add(timeout))
	werr := make(chan error, 1)
	go func() {
		if splitAt > 0 && splitAt < len(req) && pause > 0 {
			if _, err := c.Write(req[:splitAt]); err != nil {
				werr <- err
				return
			}
			time.Sleep(pause)
			_, err := c.Write(req[splitAt:])
			werr <- err
			return
		}
		_, err := c.Write(req)
		werr <- err
	}()
	br := bufio.NewReaderSize(c, 1<<16)
	out := &RawResponse{}
	var resp *http.Response
	for {
		resp, err = http.ReadResponse(br, &http.Request{Method: method})
		if err != nil {
			return nil, fmt.Errorf("reading response: %w", err)
		}
		if resp.StatusCode >= 100 && resp.StatusCode < 200 && resp.StatusCode != 101 {
			out.Interim = append(out.Interim, resp.StatusCode)
			continue
		}
		break
	}
	out.Status = resp.StatusCode
	out.Proto = resp.Proto
	out.Header = resp.Header
	out.Chunked = len(resp.TransferEncoding) > 0 && resp.TransferEncoding[0] == "chunked"
	out.Body, out.BodyErr = io.ReadAll(resp.Body)
	out.Trailer = resp.Trailer
	out.Duration = time.Since(start)
	select {
	case <-werr:
	default:
	}
	return out, nil
}

// ChunkedEncode frames b in chunks of the given sizes (the remainder is one chunk), plus trailers.
func ChunkedEncode(b []byte, sizes []int, trailers []HeaderField) []byte {
	var out bytes.Buffer
	i := 0
	for len(b) > 0 {
		n := len(b)
		if i < len(sizes) && sizes[i] > 0 && sizes[i] < n {
			n = sizes[i]
		}
		fmt.Fprintf(&out, "%x\r\n", n)
		out.Write(b[:n])
		out.WriteString("\r\n")
		b = b[n:]
		i++
	}
	out.WriteString("0\r\n")
	for _, t := range trailers {
		fmt.Fprintf(&out, "%s: %s\r\n", t.Name, t.Value)
	}
	out.WriteString("\r\n")
	return out.Bytes()
}
