package vh

import (
	"flag"
	"fmt"
	"hash/fnv"
	"strconv"
	"testing"

	"pgregory.net/rapid"
)

func Shard() int {
	n, _ := strconv.Atoi(Getenv("VERIF_SHARD", "0"))
	return n
}

func NShards() int {
	n, _ := strconv.Atoi(Getenv("VERIF_NSHARDS", "1"))
	if n < 1 {
		n = 1
	}
	return n
}

// PerShard divides a total case budget over the shards of the thorough tier.
func PerShard(total int) int {
	n := total / NShards()
	if n < 1 {
		n = 1
	}
	return n
}

// Rapid runs prop with `checks` cases (total over all shards), seeded from VERIF_SEED, the
// shard number and the test name only.
func Rapid(t *testing.T, checks int, prop func(*rapid.T)) {
	t.Helper()
	h := fnv.New32a()
	h.Write([]byte(t.Name()))
	seed := uint64(Seed())*1000003 + uint64(Shard())*7919 + uint64(h.Sum32()%1000)
	if seed == 0 {
		seed = 1
	}
	flag.Set("rapid.checks", fmt.Sprint(PerShard(checks)))
	flag.Set("rapid.seed", fmt.Sprint(seed))
	flag.Set("rapid.nofailfile", "true")
	flag.Set("rapid.shrinktime", Getenv("VERIF_SHRINKTIME", "30s"))
	rapid.Check(t, prop)
}
