package vh

import (
	"bufio"
	"bytes"
	"encoding/json"
	"io"
	"net"
	"net/http"
	"strings"
	"sync"
	"time"
)

const (
	HdrBackendID = "X-Inverting-Proxy-Backend-ID"
	HdrRequestID = "X-Inverting-Proxy-Request-ID"
	HdrUserID    = "X-Inverting-Proxy-User-ID"
	HdrStartTime = "X-Inverting-Proxy-Request-Start-Time"
)

// Upload is one attempt of the agent to post a response.
type Upload struct {
	At       time.Time
	Raw      []byte // decoded POST body = serialised backend response
	ReadErr  error  // error reading the POST body
	Resp     *http.Response
	Body     []byte
	ParseErr error
	Acked    int // status the fake proxy answered with
}

// FPRequest is a client request the fake proxy holds for the agent.
type FPRequest struct {
	ID      string
	User    string
	Wire    []byte
	Method  string
	mu      sync.Mutex
	Fetches []time.Time
	Uploads []*Upload
	Done    chan *Upload // first acknowledged upload
}

func (q *FPRequest) FetchCount() int {
	q.mu.Lock()
	defer q.mu.Unlock()
	return len(q.Fetches)
}

func (q *FPRequest) UploadCount() int {
	q.mu.Lock()
	defer q.mu.Unlock()
	return len(q.Uploads)
}

type ListCall struct {
	Start, End time.Time
	Status     int
	IDs        []string
}

// FakeProxy is a scripted implementation of the agent-facing protocol.
type FakeProxy struct {
	Ln  net.Listener
	URL string // with trailing slash
	srv *http.Server

	mu    sync.Mutex
	reqs  map[string]*FPRequest
	queue [][]string // list replies waiting to be handed out
	wake  chan struct{}
	calls []ListCall

	// Hooks; return true if the hook wrote the answer itself.
	// (set through SetListHook etc.: handlers of earlier requests may still be running when a test installs new hooks)
	listHook   func(w http.ResponseWriter, r *http.Request) bool
	fetchHook  func(q *FPRequest, w http.ResponseWriter, r *http.Request) bool
	uploadHook func(q *FPRequest, w http.ResponseWriter, r *http.Request) bool
	// OnUploadChunk sees upload body bytes as they arrive (for the streaming check).
	onUploadBytes func(q *FPRequest, b []byte)
	IdleReply     time.Duration // how long an empty poll is held (set before the agent is started)
	Strays        int           // requests from anything but the harness's own agent (ignored)
}

func NewFakeProxy() *FakeProxy {
	ln, err := net.Listen("tcp", "127.0.0.1:0")
	if err != nil {
		panic(err)
	}
	fp := &FakeProxy{Ln: ln, URL: "http://" + ln.Addr().String() + "/", reqs: map[string]*FPRequest{},
		wake: make(chan struct{}, 1), IdleReply: 200 * time.Millisecond}
	fp.srv = &http.Server{Handler: http.HandlerFunc(fp.serve)}
	go fp.srv.Serve(ln)
	return fp
}

func (fp *FakeProxy) Close() { fp.srv.Close() }

type fpHooks struct {
	list   func(w http.ResponseWriter, r *http.Request) bool
	fetch  func(q *FPRequest, w http.ResponseWriter, r *http.Request) bool
	upload func(q *FPRequest, w http.ResponseWriter, r *http.Request) bool
	tap    func(q *FPRequest, b []byte)
}

func (fp *FakeProxy) hooks() fpHooks {
	fp.mu.Lock()
	defer fp.mu.Unlock()
	return fpHooks{fp.listHook, fp.fetchHook, fp.uploadHook, fp.onUploadBytes}
}

// SetListHook installs the hook for pending-list calls (nil removes it).
func (fp *FakeProxy) SetListHook(h func(w http.ResponseWriter, r *http.Request) bool) {
	fp.mu.Lock()
	fp.listHook = h
	fp.mu.Unlock()
}

// SetFetchHook installs the hook for request fetches.
func (fp *FakeProxy) SetFetchHook(h func(q *FPRequest, w http.ResponseWriter, r *http.Request) bool) {
	fp.mu.Lock()
	fp.fetchHook = h
	fp.mu.Unlock()
}

// SetUploadHook installs the hook for response uploads.
func (fp *FakeProxy) SetUploadHook(h func(q *FPRequest, w http.ResponseWriter, r *http.Request) bool) {
	fp.mu.Lock()
	fp.uploadHook = h
	fp.mu.Unlock()
}

// SetOnUploadBytes installs a tap on the bytes of response uploads as they arrive.
func (fp *FakeProxy) SetOnUploadBytes(h func(q *FPRequest, b []byte)) {
	fp.mu.Lock()
	fp.onUploadBytes = h
	fp.mu.Unlock()
}

// Add registers a request (without listing it).
func (fp *FakeProxy) Add(id, user, method string, wire []byte) *FPRequest {
	q := &FPRequest{ID: id, User: user, Wire: wire, Method: method, Done: make(chan *Upload, 8)}
	fp.mu.Lock()
	fp.reqs[id] = q
	fp.mu.Unlock()
	return q
}

func (fp *FakeProxy) Get(id string) *FPRequest {
	fp.mu.Lock()
	defer fp.mu.Unlock()
	return fp.reqs[id]
}

func (fp *FakeProxy) Forget(id string) {
	fp.mu.Lock()
	defer fp.mu.Unlock()
	delete(fp.reqs, id)
}

// List queues one pending-list reply.
func (fp *FakeProxy) List(ids ...string) {
	fp.mu.Lock()
	fp.queue = append(fp.queue, append([]string(nil), ids...))
	fp.mu.Unlock()
	select {
	case fp.wake <- struct{}{}:
	default:
	}
}

// Submit registers a request and lists it once.
func (fp *FakeProxy) Submit(id, user, method string, wire []byte) *FPRequest {
	q := fp.Add(id, user, method, wire)
	fp.List(id)
	return q
}

func (fp *FakeProxy) ListCalls() []ListCall {
	fp.mu.Lock()
	defer fp.mu.Unlock()
	return append([]ListCall(nil), fp.calls...)
}

func (fp *FakeProxy) QueueLen() int {
	fp.mu.Lock()
	defer fp.mu.Unlock()
	return len(fp.queue)
}

func (fp *FakeProxy) serve(w http.ResponseWriter, r *http.Request) {
	if id := r.Header.Get(HdrBackendID); id != BackendIDFor(fp.URL) {
		// not the harness's agent (a stray process that happens to be configured with this port)
		fp.mu.Lock()
		fp.Strays++
		fp.mu.Unlock()
		http.Error(w, "unknown backend", http.StatusNotFound)
		return
	}
	switch {
	case strings.HasSuffix(r.URL.Path, "agent/pending"):
		fp.serveList(w, r)
	case strings.HasSuffix(r.URL.Path, "agent/request"):
		fp.serveFetch(w, r)
	case strings.HasSuffix(r.URL.Path, "agent/response"):
		fp.serveUpload(w, r)
	default:
		http.NotFound(w, r)
	}
}

type statusRecorder struct {
	http.ResponseWriter
	status int
}

func (s *statusRecorder) WriteHeader(c int) {
	if s.status == 0 {
		s.status = c
	}
	s.ResponseWriter.WriteHeader(c)
}
func (s *statusRecorder) Write(b []byte) (int, error) {
	if s.status == 0 {
		s.status = 200
	}
	return s.ResponseWriter.Write(b)
}
func (s *statusRecorder) Unwrap() http.ResponseWriter { return s.ResponseWriter }

func (s *statusRecorder) Flush() {
	if f, ok := s.ResponseWriter.(http.Flusher); ok {
		f.Flush()
	}
}

func (fp *FakeProxy) serveList(w http.ResponseWriter, r *http.Request) {
	call := ListCall{Start: time.Now()}
	sr := &statusRecorder{ResponseWriter: w}
	defer func() {
		call.End = time.Now()
		call.Status = sr.status
		fp.mu.Lock()
		fp.calls = append(fp.calls, call)
		fp.mu.Unlock()
	}()
	if h := fp.hooks().list; h != nil && h(sr, r) {
		return
	}
	deadline := time.After(fp.IdleReply)
	for {
		fp.mu.Lock()
		if len(fp.queue) > 0 {
			ids := fp.queue[0]
			fp.queue = fp.queue[1:]
			fp.mu.Unlock()
			call.IDs = ids
			b, _ := json.Marshal(ids)
			sr.WriteHeader(200)
			sr.Write(b)
			return
		}
		fp.mu.Unlock()
		select {
		case <-fp.wake:
		case <-deadline:
			sr.WriteHeader(200)
			sr.Write([]byte("[]"))
			return
		case <-r.Context().Done():
			return
		}
	}
}

func (fp *FakeProxy) serveFetch(w http.ResponseWriter, r *http.Request) {
	id := r.Header.Get(HdrRequestID)
	q := fp.Get(id)
	if q == nil {
		http.NotFound(w, r)
		return
	}
	q.mu.Lock()
	q.Fetches = append(q.Fetches, time.Now())
	q.mu.Unlock()
	if h := fp.hooks().fetch; h != nil && h(q, w, r) {
		return
	}
	w.Header().Set(HdrStartTime, time.Now().Format(time.RFC3339Nano))
	w.Header().Set(HdrUserID, q.User)
	w.WriteHeader(200)
	w.Write(q.Wire)
}

type tapReader struct {
	r  io.Reader
	fn func([]byte)
}

func (t *tapReader) Read(p []byte) (int, error) {
	n, err := t.r.Read(p)
	if n > 0 {
		t.fn(p[:n])
	}
	return n, err
}

func (fp *FakeProxy) serveUpload(w http.ResponseWriter, r *http.Request) {
	id := r.Header.Get(HdrRequestID)
	q := fp.Get(id)
	if q == nil {
		io.Copy(io.Discard, r.Body)
		http.NotFound(w, r)
		return
	}
	if h := fp.hooks().upload; h != nil && h(q, w, r) {
		return
	}
	up := &Upload{At: time.Now()}
	var body io.Reader = r.Body
	if tap := fp.hooks().tap; tap != nil {
		body = &tapReader{r.Body, func(b []byte) { tap(q, b) }}
	}
	up.Raw, up.ReadErr = io.ReadAll(body)
	up.ParseUpload(q.Method)
	up.Acked = 200
	q.mu.Lock()
	q.Uploads = append(q.Uploads, up)
	q.mu.Unlock()
	w.WriteHeader(200)
	select {
	case q.Done <- up:
	default:
	}
}

// ParseUpload decodes the serialised response carried by an upload.
func (up *Upload) ParseUpload(method string) {
	resp, err := http.ReadResponse(bufio.NewReader(bytes.NewReader(up.Raw)), &http.Request{Method: method})
	if err != nil {
		up.ParseErr = err
		return
	}
	up.Resp = resp
	up.Body, up.ParseErr = io.ReadAll(resp.Body)
}

// Wait waits for the first acknowledged upload of q.
func (q *FPRequest) Wait(timeout time.Duration) *Upload {
	select {
	case up := <-q.Done:
		return up
	case <-time.After(timeout):
		return nil
	}
}
