package vh

import (
	"bytes"
	"net/http"
)

// PlainWriter is a neutral http.ResponseWriter: no sniffing, no defaults. It snapshots the
// header map at the first WriteHeader/Write, as a real server would put it on the wire.
type PlainWriter struct {
	H        http.Header
	Code     int
	Sent     http.Header
	Body     bytes.Buffer
	Writes   int
	Flushes  int
	HeaderAt int // number of WriteHeader calls
}

func NewPlainWriter() *PlainWriter { return &PlainWriter{H: http.Header{}} }

func (w *PlainWriter) Header() http.Header { return w.H }

func (w *PlainWriter) WriteHeader(code int) {
	w.HeaderAt++
	if w.Code != 0 {
		return
	}
	if code >= 100 && code < 200 && code != 101 {
		return
	}
	w.Code = code
	w.Sent = w.H.Clone()
}

func (w *PlainWriter) Write(b []byte) (int, error) {
	if w.Code == 0 {
		w.WriteHeader(200)
	}
	w.Writes++
	return w.Body.Write(b)
}

func (w *PlainWriter) Flush() { w.Flushes++ }
