// Package vh is the shared harness library: evidence recording, case persistence,
// process control and scripted network peers.
package vh

import (
	"crypto/sha256"
	"encoding/hex"
	"encoding/json"
	"errors"
	"fmt"
	"os"
	"path/filepath"
	"runtime/debug"
	"sort"
	"strconv"
	"strings"
	"sync"
	"testing"
	"time"
)

// Env helpers -------------------------------------------------------------

func Getenv(k, def string) string {
	if v := os.Getenv(k); v != "" {
		return v
	}
	return def
}

func Tier() string { return Getenv("VERIF_TIER", "quick") }

func Thorough() bool { return Tier() == "thorough" }

// Scale returns q in the quick tier and th in the thorough tier.
func Scale(q, th int) int {
	if Thorough() {
		return th
	}
	return q
}

func Seed() int {
	n, _ := strconv.Atoi(Getenv("VERIF_SEED", "1"))
	if n == 0 {
		n = 1
	}
	return n
}

// WorkDir is the per-invocation scratch directory (never under /tmp for registered commands).
func WorkDir() string {
	d := Getenv("VERIF_WORK", "")
	if d == "" {
		d = filepath.Join(os.TempDir(), "verif-work-"+strconv.Itoa(os.Getpid()))
	}
	os.MkdirAll(d, 0o755)
	return d
}

// BinDir holds the -race binaries built from /repo by the driver.
func BinDir() string { return Getenv("VERIF_BIN", filepath.Join(WorkDir(), "bin")) }

func Bin(name string) string { return filepath.Join(BinDir(), name) }

// Recorder ------------------------------------------------------------------

// Outcome is what executing one generated case yields.
type Outcome struct {
	NonTrivial   bool
	Classes      []string
	Err          error  // property violation
	Inconclusive string // non-empty: infrastructure/timing trouble, never a violation
	Signature    string // optional stable identification of the failure (for known findings)
	TimedOut     bool   // the failure is a wall-clock bound being hit (needs confirmation before it counts)
	SkipCount    bool   // batch wrapper: its scenarios were already accounted for one by one
}

// Confirm re-runs a case whose only failure was a time bound with a larger bound: if it then
// passes, the case is counted as inconclusive instead of as a violation.
func Confirm(run func(mult int) Outcome) Outcome {
	o := run(1)
	if o.Err == nil || !o.TimedOut {
		return o
	}
	o2 := run(4)
	if o2.Err == nil {
		o2.Inconclusive = "time bound hit on the first attempt only: " + o.Err.Error()
	}
	return o2
}

// IsTimeout reports whether err is a network/deadline timeout.
func IsTimeout(err error) bool {
	if err == nil {
		return false
	}
	var ne interface{ Timeout() bool }
	if errors.As(err, &ne) && ne.Timeout() {
		return true
	}
	return strings.Contains(err.Error(), "i/o timeout") || strings.Contains(err.Error(), "deadline exceeded")
}

type failureFile struct {
	Property  string          `json:"property"`
	Part      string          `json:"part"`
	Message   string          `json:"message"`
	Signature string          `json:"signature,omitempty"`
	Case      json.RawMessage `json:"case"`
}

type statsFile struct {
	Property     string            `json:"property"`
	Part         string            `json:"part"`
	Rule         string            `json:"rule"`
	Evaluations  int               `json:"evaluations"`
	Hashes       []string          `json:"nontrivial_hashes"`
	Classes      map[string]int    `json:"classes"`
	Samples      []json.RawMessage `json:"samples"`
	Inconclusive int               `json:"inconclusive"`
	InconcNotes  []string          `json:"inconclusive_notes,omitempty"`
	Violations   int               `json:"violations"`
	Extra        map[string]any    `json:"extra,omitempty"`
	Assumptions  []string          `json:"assumptions,omitempty"`
	Exhaustive   bool              `json:"exhaustive,omitempty"`
	WallS        float64           `json:"wall_s"`
}

type Recorder struct {
	mu    sync.Mutex
	start time.Time
	st    statsFile
	seen  map[string]struct{}
	shard string
}

func NewRecorder(property, part, rule string) *Recorder {
	return &Recorder{
		start: time.Now(),
		st: statsFile{Property: property, Part: part, Rule: rule, Classes: map[string]int{},
			Extra: map[string]any{}},
		seen:  map[string]struct{}{},
		shard: Getenv("VERIF_SHARD", "0"),
	}
}

func canon(c any) []byte {
	b, err := json.Marshal(c)
	if err != nil {
		b = []byte(fmt.Sprintf("%#v", c))
		b, _ = json.Marshal(string(b))
	}
	return b
}

// Begin writes the case ahead of executing it, so that a crash of the test process
// still leaves the culprit on disk.
func (r *Recorder) Begin(c any) {
	p := filepath.Join(WorkDir(), fmt.Sprintf("current-case-%s-%s.json", r.st.Part, r.shard))
	os.WriteFile(p, canon(failureFile{Property: r.st.Property, Part: r.st.Part, Case: canon(c)}), 0o644)
}

func (r *Recorder) Assume(s ...string) {
	r.mu.Lock()
	defer r.mu.Unlock()
	r.st.Assumptions = append(r.st.Assumptions, s...)
}

func (r *Recorder) SetExtra(k string, v any) {
	r.mu.Lock()
	defer r.mu.Unlock()
	r.st.Extra[k] = v
}

func (r *Recorder) AddExtra(k string, n int) {
	r.mu.Lock()
	defer r.mu.Unlock()
	cur, _ := r.st.Extra[k].(int)
	r.st.Extra[k] = cur + n
}

func (r *Recorder) SetExhaustive(b bool) {
	r.mu.Lock()
	defer r.mu.Unlock()
	r.st.Exhaustive = b
}

// Done accounts for one executed case.
func (r *Recorder) Done(c any, o Outcome) {
	r.mu.Lock()
	defer r.mu.Unlock()
	if o.SkipCount {
		if o.Err != nil {
			r.st.Violations++
			ff := failureFile{Property: r.st.Property, Part: r.st.Part, Message: o.Err.Error(), Signature: o.Signature, Case: canon(c)}
			p := filepath.Join(WorkDir(), fmt.Sprintf("last-failure-%s-%s.json", r.st.Part, r.shard))
			os.WriteFile(p, canon(ff), 0o644)
		}
		return
	}
	r.st.Evaluations++
	dedup := map[string]bool{}
	for _, cl := range o.Classes {
		if !dedup[cl] {
			dedup[cl] = true
			r.st.Classes[cl]++
		}
	}
	if o.Inconclusive != "" {
		r.st.Inconclusive++
		if len(r.st.InconcNotes) < 10 {
			r.st.InconcNotes = append(r.st.InconcNotes, o.Inconclusive)
		}
	}
	if o.NonTrivial {
		b := canon(c)
		h := sha256.Sum256(b)
		k := hex.EncodeToString(h[:8])
		if _, ok := r.seen[k]; !ok {
			r.seen[k] = struct{}{}
			if len(r.st.Samples) < 4 && len(b) < 6000 {
				r.st.Samples = append(r.st.Samples, json.RawMessage(b))
			}
		}
	}
	if o.Err != nil {
		r.st.Violations++
		ff := failureFile{Property: r.st.Property, Part: r.st.Part, Message: o.Err.Error(), Signature: o.Signature, Case: canon(c)}
		p := filepath.Join(WorkDir(), fmt.Sprintf("last-failure-%s-%s.json", r.st.Part, r.shard))
		os.WriteFile(p, canon(ff), 0o644)
	}
}

// Flush writes the stats file the driver merges into the evidence file.
func (r *Recorder) Flush() {
	r.mu.Lock()
	defer r.mu.Unlock()
	r.st.Hashes = r.st.Hashes[:0]
	for k := range r.seen {
		r.st.Hashes = append(r.st.Hashes, k)
	}
	sort.Strings(r.st.Hashes)
	r.st.WallS = time.Since(r.start).Seconds()
	p := filepath.Join(WorkDir(), fmt.Sprintf("stats-%s-%s.json", r.st.Part, r.shard))
	b, _ := json.MarshalIndent(r.st, "", " ")
	os.WriteFile(p, b, 0o644)
}

// TB is the subset of testing.TB / *rapid.T the harness needs.
type TB interface {
	Fatalf(format string, args ...any)
	Logf(format string, args ...any)
}

// Check runs one case through f with write-ahead, accounting and failure persistence.
func (r *Recorder) Check(t TB, c any, f func() Outcome) {
	r.Begin(c)
	var o Outcome
	func() {
		defer func() {
			if p := recover(); p != nil {
				stack := string(debug.Stack())
				if !strings.Contains(stack, "github.com/google/inverting-proxy") {
					panic(p) // a bug of the harness itself: not a property outcome
				}
				o.Err = fmt.Errorf("panic in the code under test: %v\n%s", p, trimStack(stack))
			}
		}()
		o = f()
	}()
	r.Done(c, o)
	if o.Err != nil {
		t.Fatalf("property %s violated: %v", r.st.Property, o.Err)
	}
}

func trimStack(s string) string {
	lines := strings.Split(s, "\n")
	var keep []string
	for i, l := range lines {
		if strings.Contains(l, "github.com/google/inverting-proxy") {
			keep = append(keep, strings.TrimSpace(l))
			if i+1 < len(lines) {
				keep = append(keep, "  "+strings.TrimSpace(lines[i+1]))
			}
		}
		if len(keep) >= 8 {
			break
		}
	}
	return strings.Join(keep, "\n")
}

// Replay support ------------------------------------------------------------

// ReplayCase loads the case of a replay file if VERIF_REPLAY names one for this part.
func ReplayCase(part string, into any) (bool, error) {
	p := os.Getenv("VERIF_REPLAY")
	if p == "" {
		return false, nil
	}
	b, err := os.ReadFile(p)
	if err != nil {
		return false, err
	}
	var ff failureFile
	if err := json.Unmarshal(b, &ff); err != nil {
		return false, err
	}
	if ff.Part != part {
		return false, nil
	}
	return true, json.Unmarshal(ff.Case, into)
}

func ReplayRuns() int {
	n, _ := strconv.Atoi(Getenv("VERIF_REPLAY_RUNS", "3"))
	if n < 1 {
		n = 1
	}
	return n
}

// Main is the TestMain body shared by all check packages.
func Main(m *testing.M, recs ...*Recorder) {
	code := m.Run()
	for _, r := range recs {
		r.Flush()
	}
	os.Exit(code)
}

// PayloadByte is the deterministic payload function: byte i of the payload named tag.
func Payload(tag string, n int) []byte {
	b := make([]byte, n)
	h := sha256.Sum256([]byte(tag))
	x := uint64(h[0]) | uint64(h[1])<<8 | uint64(h[2])<<16 | uint64(h[3])<<24 | uint64(h[4])<<32 | 1
	for i := range b {
		x ^= x << 13
		x ^= x >> 7
		x ^= x << 17
		b[i] = byte(x >> 24)
	}
	return b
}

func HashBytes(b []byte) string {
	h := sha256.Sum256(b)
	return hex.EncodeToString(h[:12])
}
