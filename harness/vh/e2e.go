package vh

import (
	"fmt"
	"net"
	"sync"
	"sync/atomic"
	"time"
)

const TokenHeader = "X-Verif-Token"

// E2E is a stand-alone proxy + agent in front of a scripted raw backend; requests are
// correlated by a token header.
type E2E struct {
	Stack   *Stack
	Backend *RawBackend

	mu       sync.Mutex
	handlers map[string]func(rq *RawRequest, c net.Conn) bool
	seen     map[string][]*RawRequest
	ctr      atomic.Int64
	nonce    string
	args     []string
	env      []string
}

var okResponse = []byte("HTTP/1.1 200 OK\r\nContent-Length: 0\r\n\r\n")

func NewE2E(agentArgs []string, env ...string) (*E2E, error) {
	e := &E2E{handlers: map[string]func(*RawRequest, net.Conn) bool{}, seen: map[string][]*RawRequest{},
		nonce: fmt.Sprintf("%x", time.Now().UnixNano()&0xffffff), args: agentArgs, env: env}
	e.Backend = NewRawBackend(func(rq *RawRequest, c net.Conn) bool {
		tok := ""
		if v := rq.Values(TokenHeader); len(v) > 0 {
			tok = v[0]
		}
		e.mu.Lock()
		e.seen[tok] = append(e.seen[tok], rq)
		h := e.handlers[tok]
		e.mu.Unlock()
		if h != nil {
			return h(rq, c)
		}
		c.Write(okResponse)
		return true
	})
	if err := e.start(); err != nil {
		e.Backend.Close()
		return nil, err
	}
	return e, nil
}

func (e *E2E) start() error {
	st, err := StartStack(e.Backend.Addr, e.args, e.env...)
	if err != nil {
		return err
	}
	e.Stack = st
	// warm-up: wait until a request makes it through
	deadline := time.Now().Add(30 * time.Second)
	for time.Now().Before(deadline) {
		r, err := RawRoundTrip(st.ProxyAddr, []byte("GET /warmup HTTP/1.1\r\nHost: warm.up\r\n"+TokenHeader+": warmup\r\n\r\n"), "GET", 3*time.Second)
		if err == nil && r.Status == 200 {
			return nil
		}
		if !st.Agent.Alive() || !st.Server.Alive() {
			break
		}
		time.Sleep(50 * time.Millisecond)
	}
	herr := st.Health()
	tail := st.Agent.Tail(10)
	st.Stop()
	return fmt.Errorf("stack did not come up (%v): %s", herr, tail)
}

// Restart replaces a broken stack.
func (e *E2E) Restart() error {
	e.Stack.Stop()
	return e.start()
}

func (e *E2E) Close() {
	e.Stack.Stop()
	e.Backend.Close()
}

// NewToken returns a token unique within this process set.
func (e *E2E) NewToken() string {
	return fmt.Sprintf("t%s-%d", e.nonce, e.ctr.Add(1))
}

// Handle installs the backend behaviour for a token.
func (e *E2E) Handle(tok string, h func(rq *RawRequest, c net.Conn) bool) {
	e.mu.Lock()
	e.handlers[tok] = h
	e.mu.Unlock()
}

// Seen returns (and forgets) what the backend received for a token.
func (e *E2E) Seen(tok string) []*RawRequest {
	e.mu.Lock()
	defer e.mu.Unlock()
	s := e.seen[tok]
	delete(e.seen, tok)
	delete(e.handlers, tok)
	return s
}
