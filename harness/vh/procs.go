package vh

import (
	"bufio"
	"fmt"
	"io"
	"net"
	"os"
	"os/exec"
	"path/filepath"
	"regexp"
	"strings"
	"sync"
	"syscall"
	"time"
)

var badLine = regexp.MustCompile(`^(WARNING: DATA RACE|fatal error:|panic:|unexpected fault address|SIGSEGV)`)

// Proc is a binary under test started by a check.
type Proc struct {
	Name string
	Cmd  *exec.Cmd

	mu      sync.Mutex
	lines   []string // ring of the most recent lines
	flags   []string // race/fatal/panic reports (first lines + context)
	capture int      // lines still to be captured into the current flag report
	exited  chan struct{}
	exitErr error
	logf    *os.File
	waiters []*lineWaiter
	watch   map[string]func(string) bool
	watched map[string]int
}

type lineWaiter struct {
	substr string
	ch     chan string
}

// StartProc starts bin with args; env entries are added to the current environment.
// Children share the test's process group (the driver kills the group) and die with the test.
func StartProc(name, bin string, args []string, env ...string) (*Proc, error) {
	cmd := exec.Command(bin, args...)
	cmd.Env = append(os.Environ(), env...)
	cmd.SysProcAttr = &syscall.SysProcAttr{Pdeathsig: syscall.SIGKILL}
	pr, pw, err := os.Pipe()
	if err != nil {
		return nil, err
	}
	cmd.Stdout = pw
	cmd.Stderr = pw
	p := &Proc{Name: name, Cmd: cmd, exited: make(chan struct{})}
	os.MkdirAll(filepath.Join(WorkDir(), "logs"), 0o755)
	p.logf, _ = os.Create(filepath.Join(WorkDir(), "logs", fmt.Sprintf("%s-%d.log", name, time.Now().UnixNano())))
	if err := cmd.Start(); err != nil {
		pw.Close()
		pr.Close()
		return nil, err
	}
	pw.Close()
	scanDone := make(chan struct{})
	go func() {
		defer close(scanDone)
		rd := bufio.NewReaderSize(pr, 1<<16)
		for {
			line, err := rd.ReadString('\n')
			if line != "" {
				p.addLine(strings.TrimRight(line, "\n"))
			}
			if err != nil {
				break
			}
		}
		pr.Close()
	}()
	go func() {
		err := cmd.Wait()
		<-scanDone
		p.mu.Lock()
		p.exitErr = err
		if p.logf != nil {
			p.logf.Close()
			p.logf = nil
		}
		p.mu.Unlock()
		close(p.exited)
	}()
	return p, nil
}

// Watch counts the output lines for which pred holds (see Watched).
func (p *Proc) Watch(name string, pred func(string) bool) {
	p.mu.Lock()
	defer p.mu.Unlock()
	if p.watch == nil {
		p.watch = map[string]func(string) bool{}
		p.watched = map[string]int{}
	}
	p.watch[name] = pred
}

// Watched returns how many lines matched the named watcher so far.
func (p *Proc) Watched(name string) int {
	p.mu.Lock()
	defer p.mu.Unlock()
	return p.watched[name]
}

func (p *Proc) addLine(l string) {
	p.mu.Lock()
	defer p.mu.Unlock()
	for n, pred := range p.watch {
		if pred(l) {
			p.watched[n]++
		}
	}
	if p.logf != nil {
		// keep logs bounded: only the first 20 MB
		if st, err := p.logf.Stat(); err == nil && st.Size() < 20<<20 {
			io.WriteString(p.logf, l+"\n")
		}
	}
	if len(l) > 400 {
		l = l[:400] + "…"
	}
	p.lines = append(p.lines, l)
	if len(p.lines) > 400 {
		p.lines = p.lines[len(p.lines)-200:]
	}
	if p.capture > 0 {
		p.flags[len(p.flags)-1] += "\n" + l
		p.capture--
		if strings.HasPrefix(l, "==================") {
			p.capture = 0
		}
	} else if badLine.MatchString(l) {
		if len(p.flags) < 50 {
			p.flags = append(p.flags, l)
			p.capture = 60
		}
	}
	for i := 0; i < len(p.waiters); i++ {
		w := p.waiters[i]
		if strings.Contains(l, w.substr) {
			w.ch <- l
			p.waiters = append(p.waiters[:i], p.waiters[i+1:]...)
			i--
		}
	}
}

// WaitLine waits until a line containing substr is (or has been) printed.
func (p *Proc) WaitLine(substr string, timeout time.Duration) (string, error) {
	p.mu.Lock()
	for _, l := range p.lines {
		if strings.Contains(l, substr) {
			p.mu.Unlock()
			return l, nil
		}
	}
	w := &lineWaiter{substr, make(chan string, 1)}
	p.waiters = append(p.waiters, w)
	p.mu.Unlock()
	select {
	case l := <-w.ch:
		return l, nil
	case <-p.exited:
		return "", fmt.Errorf("%s exited while waiting for %q: %s", p.Name, substr, p.Tail(20))
	case <-time.After(timeout):
		return "", fmt.Errorf("%s: timeout waiting for %q: %s", p.Name, substr, p.Tail(20))
	}
}

func (p *Proc) Alive() bool {
	select {
	case <-p.exited:
		return false
	default:
		return true
	}
}

func (p *Proc) Exited() <-chan struct{} { return p.exited }

func (p *Proc) ExitErr() error {
	p.mu.Lock()
	defer p.mu.Unlock()
	return p.exitErr
}

// Flags returns race / fatal / panic reports seen on the output so far.
func (p *Proc) Flags() []string {
	p.mu.Lock()
	defer p.mu.Unlock()
	return append([]string(nil), p.flags...)
}

// FlagCount is cheap to poll between cases.
func (p *Proc) FlagCount() int {
	p.mu.Lock()
	defer p.mu.Unlock()
	return len(p.flags)
}

func (p *Proc) Tail(n int) string {
	p.mu.Lock()
	defer p.mu.Unlock()
	l := p.lines
	if len(l) > n {
		l = l[len(l)-n:]
	}
	return strings.Join(l, "\n")
}

func (p *Proc) Signal(s syscall.Signal) { p.Cmd.Process.Signal(s) }

func (p *Proc) Stop() {
	if p == nil {
		return
	}
	if p.Alive() {
		p.Cmd.Process.Kill()
	}
	select {
	case <-p.exited:
	case <-time.After(5 * time.Second):
	}
}

// FreePort returns a TCP port that was free a moment ago.
func FreePort() int {
	l, err := net.Listen("tcp", "127.0.0.1:0")
	if err != nil {
		panic(err)
	}
	defer l.Close()
	return l.Addr().(*net.TCPAddr).Port
}

// WaitPort waits until something accepts connections on addr.
func WaitPort(addr string, timeout time.Duration) error {
	deadline := time.Now().Add(timeout)
	for time.Now().Before(deadline) {
		c, err := net.DialTimeout("tcp", addr, 200*time.Millisecond)
		if err == nil {
			c.Close()
			return nil
		}
		time.Sleep(20 * time.Millisecond)
	}
	return fmt.Errorf("nothing listening on %s after %v", addr, timeout)
}

// RaceSignature reduces a race/panic report to the function names involved, for matching known findings.
func RaceSignature(report string) string {
	var fns []string
	seen := map[string]bool{}
	re := regexp.MustCompile(`^\s+([A-Za-z0-9_./\-]+(?:\(\*?[A-Za-z0-9_]+\))?\.[A-Za-z0-9_.()*]+)\(`)
	for _, l := range strings.Split(report, "\n") {
		if m := re.FindStringSubmatch(l); m != nil {
			f := m[1]
			if strings.HasPrefix(f, "runtime.") || seen[f] {
				continue
			}
			seen[f] = true
			fns = append(fns, f)
			if len(fns) >= 6 {
				break
			}
		}
	}
	first := strings.SplitN(report, "\n", 2)[0]
	return first + " | " + strings.Join(fns, " ; ")
}
