package vh

import (
	"encoding/json"
	"io"
	"net/http"
	"net/http/httptest"
	"os"
	"path/filepath"
	"strings"
)

// FakeMeta is a fake GCE metadata server, as in the repository's own agent tests.
type FakeMeta struct {
	Srv  *httptest.Server
	Host string
	Home string
}

func NewFakeMeta() *FakeMeta {
	srv := httptest.NewServer(http.HandlerFunc(func(w http.ResponseWriter, r *http.Request) {
		w.Header().Set("Metadata-Flavor", "Google")
		if strings.HasPrefix(r.URL.Path, "/computeMetadata/v1/project/project-id") {
			io.WriteString(w, "12345")
			return
		}
		if !(strings.HasPrefix(r.URL.Path, "/computeMetadata/v1/instance/service-accounts/") && strings.HasSuffix(r.URL.Path, "/token")) {
			io.WriteString(w, "ok")
			return
		}
		json.NewEncoder(w).Encode(map[string]any{"access_token": "fakeToken", "expires_in": 100000, "token_type": "Bearer"})
	}))
	home := filepath.Join(WorkDir(), "home")
	os.MkdirAll(filepath.Join(home, ".config", "gcloud"), 0o755)
	return &FakeMeta{Srv: srv, Host: strings.TrimPrefix(srv.URL, "http://"), Home: home}
}

// Env is the environment an agent binary needs to use this fake.
func (m *FakeMeta) Env() []string {
	return []string{"HOME=" + m.Home, "GCE_METADATA_HOST=" + m.Host}
}

func (m *FakeMeta) Close() { m.Srv.Close() }
