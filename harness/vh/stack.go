package vh

import (
	"fmt"
	"net/url"
	"strings"
	"time"
)

// BackendIDFor is the backend ID the harness's agents use against the proxy at proxyURL: unique per
// proxy port, so that a stray agent left over from something else on this machine is recognisable.
func BackendIDFor(proxyURL string) string {
	if u, err := url.Parse(proxyURL); err == nil && u.Port() != "" {
		return "vb-" + u.Port()
	}
	return "vb-0"
}

// StartServer starts the stand-alone inverting proxy binary and returns its address.
func StartServer(env ...string) (*Proc, string, error) {
	p, err := StartProc("server", Bin("server"), []string{"--port=0"}, env...)
	if err != nil {
		return nil, "", err
	}
	l, err := p.WaitLine("Listening on ", 20*time.Second)
	if err != nil {
		p.Stop()
		return nil, "", err
	}
	i := strings.LastIndex(l, ":")
	port := strings.TrimSpace(l[i+1:])
	return p, "127.0.0.1:" + port, nil
}

// StartAgent starts the agent binary against proxyURL (must end in "/") and the backend address.
func StartAgent(meta *FakeMeta, proxyURL, backendAddr string, extraArgs []string, env ...string) (*Proc, error) {
	args := append([]string{"--proxy=" + proxyURL, "--backend=" + BackendIDFor(proxyURL), "--host=" + backendAddr}, extraArgs...)
	return StartProc("agent", Bin("agent"), args, append(meta.Env(), env...)...)
}

// Stack is a stand-alone proxy plus an agent in front of a harness-owned backend.
type Stack struct {
	Meta      *FakeMeta
	Server    *Proc
	Agent     *Proc
	ProxyAddr string
}

func StartStack(backendAddr string, agentArgs []string, env ...string) (*Stack, error) {
	s := &Stack{Meta: NewFakeMeta()}
	var err error
	s.Server, s.ProxyAddr, err = StartServer(env...)
	if err != nil {
		s.Stop()
		return nil, err
	}
	own := BackendIDFor("http://" + s.ProxyAddr + "/")
	s.Server.Watch("foreign-agent", func(l string) bool {
		return strings.Contains(l, "Received new backend") && !strings.Contains(l, own)
	})
	s.Agent, err = StartAgent(s.Meta, "http://"+s.ProxyAddr+"/", backendAddr, agentArgs, env...)
	if err != nil {
		s.Stop()
		return nil, err
	}
	return s, nil
}

func (s *Stack) Stop() {
	if s == nil {
		return
	}
	s.Agent.Stop()
	s.Server.Stop()
	if s.Meta != nil {
		s.Meta.Close()
	}
}

// Foreign reports whether an agent other than the harness's own has talked to the proxy (a stray
// process on this machine that happens to be configured with this port): results are then meaningless.
func (s *Stack) Foreign() bool { return s.Server != nil && s.Server.Watched("foreign-agent") > 0 }

// Discount turns a failure into an inconclusive outcome when a stray agent has talked to the proxy.
func (s *Stack) Discount(o Outcome) Outcome {
	if o.Err != nil && s.Foreign() {
		o.Inconclusive = "a foreign agent (not started by the harness) polled the proxy; discarded failure: " + o.Err.Error()
		o.Err = nil
	}
	return o
}

// Health reports a dead process or race/fatal/panic output of either binary.
func (s *Stack) Health() error {
	for _, p := range []*Proc{s.Server, s.Agent} {
		if p == nil {
			continue
		}
		if fl := p.Flags(); len(fl) > 0 {
			return fmt.Errorf("%s reported: %s", p.Name, fl[0])
		}
		if !p.Alive() {
			return fmt.Errorf("%s exited: %v\n%s", p.Name, p.ExitErr(), p.Tail(15))
		}
	}
	return nil
}
