package vh

import (
	"fmt"
	"time"
)

// Bridge is a tcp-bridge-frontend / tcp-bridge-backend pair in front of a harness-owned TCP port.
type Bridge struct {
	Front, Back *Proc
	FrontAddr   string // where TCP clients connect
	BackAddr    string // HTTP/websocket port of the bridge backend
}

// StartBridge starts both binaries; targetPort is the TCP port the bridge backend forwards to.
func StartBridge(targetPort int) (*Bridge, error) {
	var lastErr error
	for attempt := 0; attempt < 5; attempt++ {
		p1, p2 := FreePort(), FreePort()
		back, err := StartProc("bridge-backend", Bin("tcp-bridge-backend"), []string{fmt.Sprintf("-frontend-port=%d", p2), fmt.Sprintf("-backend-port=%d", targetPort)})
		if err != nil {
			return nil, err
		}
		if err := WaitPort(fmt.Sprintf("127.0.0.1:%d", p2), 10*time.Second); err != nil || !back.Alive() {
			back.Stop()
			lastErr = fmt.Errorf("bridge backend: %v", err)
			continue
		}
		front, err := StartProc("bridge-frontend", Bin("tcp-bridge-frontend"), []string{fmt.Sprintf("-frontend-port=%d", p1), fmt.Sprintf("-backend=ws://127.0.0.1:%d", p2)})
		if err != nil {
			back.Stop()
			return nil, err
		}
		if err := WaitPort(fmt.Sprintf("127.0.0.1:%d", p1), 10*time.Second); err != nil || !front.Alive() {
			front.Stop()
			back.Stop()
			lastErr = fmt.Errorf("bridge frontend: %v", err)
			continue
		}
		return &Bridge{Front: front, Back: back, FrontAddr: fmt.Sprintf("127.0.0.1:%d", p1), BackAddr: fmt.Sprintf("127.0.0.1:%d", p2)}, nil
	}
	return nil, fmt.Errorf("bridge did not come up in 5 attempts on different ports: %v", lastErr)
}

func (b *Bridge) Stop() {
	if b == nil {
		return
	}
	b.Front.Stop()
	b.Back.Stop()
}

// Health reports a dead process or race/fatal/panic output of either binary.
func (b *Bridge) Health() error {
	for _, p := range []*Proc{b.Front, b.Back} {
		if fl := p.Flags(); len(fl) > 0 {
			return fmt.Errorf("%s reported: %s", p.Name, fl[0])
		}
		if !p.Alive() {
			return fmt.Errorf("%s exited: %v\n%s", p.Name, p.ExitErr(), p.Tail(10))
		}
	}
	return nil
}
