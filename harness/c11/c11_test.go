// Package c11 checks property C11: shimmed websockets deliver every message once, in order, unchanged.
package c11

import (
	"bytes"
	"encoding/base64"
	"encoding/json"
	"fmt"
	"math/big"
	"net/http"
	"reflect"
	"strings"
	"sync"
	"testing"
	"time"
	"unicode/utf8"

	"pgregory.net/rapid"
	"verif/harness/shimrig"
	"verif/harness/vh"
)

var (
	recD = vh.NewRecorder("C11", "delivery",
		"operation sequences over {data post of 1-30 client messages, backend burst of 1-40 messages, poll, post concurrently with a poll} on "+
			"one shimmed websocket (shim protocol version 1: text and binary; version 0: text only); text = arbitrary valid UTF-8 incl. quotes, "+
			"<>&, control characters, astral planes; binary = arbitrary bytes; sizes 0..1 MiB; handler = websockets.Proxy in-process with a real "+
			"gorilla/websocket backend; oracle = model queues (exactly once, in order, type and payload unchanged in both directions); polls "+
			"are only issued while the model says a message is outstanding; non-trivial = at least one binary and one text message and a burst "+
			"of more than 10 messages; distinct = SHA-256 of the canonical case"+
			" Later additions: a final backend burst followed by a regular backend close (polls drain everything before reporting the close); in a quarter of the cases a neighbouring session is closed and a further one opened and used while this one is in use; runs of 2-4 binary frames of 32 KiB-100 KB right behind each other.")
	recI = vh.NewRecorder("C11", "header-injection",
		"JSON and non-JSON client messages {object with resource.headers object (empty, partly or fully overlapping the request headers), "+
			"object without it, resource not an object, resource.headers not an object, array, scalar, invalid JSON, the same as binary} x 0-4 "+
			"request headers on the data post, with header injection enabled; oracle: received == sent byte for byte unless the message is a "+
			"JSON object with a resource.headers object, in which case received as a JSON value == sent with exactly the request headers not "+
			"already present added; non-trivial = an injectable message with at least one request header; distinct = SHA-256 of the case"+
			" Later additions: two concatenated JSON documents, an object followed by a trailer, an object followed by white space only (the last is a single JSON value and is injected).")
)

func TestMain(m *testing.M) { vh.Main(m, recD, recI, recC) }

type Msg struct {
	Binary bool   `json:"binary,omitempty"`
	Text   string `json:"text,omitempty"` // literal payload (small messages)
	Size   int    `json:"size,omitempty"` // >0: deterministic payload of this size instead of Text
	Seed   string `json:"seed,omitempty"`
}

func (m Msg) data() []byte {
	if m.Size > 0 {
		b := vh.Payload("c11"+m.Seed, m.Size)
		if !m.Binary {
			// printable, valid UTF-8
			for i := range b {
				b[i] = 32 + b[i]%95
			}
		}
		return b
	}
	return []byte(m.Text)
}

type Op struct {
	Kind string `json:"kind"` // post | burst | poll | post+poll
	Msgs []Msg  `json:"msgs,omitempty"`
	Wait int    `json:"wait_ms,omitempty"`
}

type Case struct {
	Version int  `json:"version"`
	Ops     []Op `json:"ops"`
	// Tail, if present: after the operations the backend sends these messages and closes the websocket the regular way
	// (close frame, then waits for the peer's); the client starts polling WaitMs later and polls until the session is
	// reported closed. Everything the backend sent, including what was still undelivered before, must arrive first.
	Tail *Tail `json:"tail,omitempty"`
	// Neighbours: another session is opened before this one and closed after the first operation, whereupon a third one
	// is opened and used (one message each way); the messages of this session stay its own.
	Neighbours bool `json:"neighbours,omitempty"`
}

type Tail struct {
	Msgs   []Msg `json:"msgs,omitempty"`
	WaitMs int   `json:"wait_ms"`
}

func genMsg(t *rapid.T, version int, idx int) Msg {
	m := Msg{}
	if version >= 1 {
		m.Binary = rapid.IntRange(0, 2).Draw(t, "binary") == 0
	}
	switch rapid.IntRange(0, 11).Draw(t, "mkind") {
	case 0:
		m.Size = rapid.SampledFrom([]int{125, 126, 127, 1000, 4096}).Draw(t, "size")
		m.Seed = fmt.Sprint(idx)
	case 1:
		// (rapid favours small draws: the expensive choices sit at the far end)
		switch rapid.IntRange(0, 15).Draw(t, "large") {
		case 15:
			m.Size = 1 << 20
		case 12, 13, 14:
			m.Size = rapid.SampledFrom([]int{65535, 65536, 65537}).Draw(t, "size64k")
		default:
			m.Size = 300
		}
		m.Seed = fmt.Sprint(idx)
	case 2:
		m.Text = "" // empty message
	case 3:
		m.Text = rapid.SampledFrom([]string{`"quoted"`, `<script>&amp;</script>`, "line1\nline2\r\n\ttab", "\x00\x01\x1f", "  ", "😀𝄞", `{"json":[1,2,{"a":null}]}`, `A\\`, "[\"abc\"]", "null", "ÿÿ"}).Draw(t, "special")
	default:
		if m.Binary {
			m.Text = string(rapid.SliceOfN(rapid.Byte(), 0, 40).Draw(t, "bytes"))
		} else {
			m.Text = rapid.String().Draw(t, "text")
			if !utf8.ValidString(m.Text) {
				m.Text = "fallback"
			}
		}
	}
	return m
}

func genCase(t *rapid.T) Case {
	c := Case{Version: rapid.SampledFrom([]int{1, 1, 1, 0}).Draw(t, "version")}
	n := rapid.IntRange(2, 14).Draw(t, "nops")
	idx := 0
	for i := 0; i < n; i++ {
		op := Op{Kind: rapid.SampledFrom([]string{"post", "post", "burst", "burst", "poll", "post+poll"}).Draw(t, "kind")}
		if c.Version >= 1 && (op.Kind == "post" || op.Kind == "burst") && rapid.IntRange(0, 5).Draw(t, "largeBinary") == 0 {
			// several binary frames of 32 KiB and more right behind each other
			k := rapid.IntRange(2, 4).Draw(t, "klarge")
			for j := 0; j < k; j++ {
				idx++
				op.Msgs = append(op.Msgs, Msg{Binary: true, Size: rapid.SampledFrom([]int{32768, 40000, 65536, 100000}).Draw(t, "largeSize"), Seed: fmt.Sprint(idx)})
			}
			c.Ops = append(c.Ops, op)
			continue
		}
		switch op.Kind {
		case "post", "post+poll":
			k := rapid.IntRange(1, 30).Draw(t, "k")
			if rapid.IntRange(0, 2).Draw(t, "fewc") != 0 {
				k = rapid.IntRange(1, 4).Draw(t, "kfew")
			}
			for j := 0; j < k; j++ {
				idx++
				op.Msgs = append(op.Msgs, genMsg(t, c.Version, idx))
			}
		case "burst":
			k := rapid.IntRange(1, 40).Draw(t, "kb")
			if rapid.IntRange(0, 2).Draw(t, "fewb") == 0 {
				k = rapid.IntRange(1, 4).Draw(t, "kbfew")
			}
			for j := 0; j < k; j++ {
				idx++
				op.Msgs = append(op.Msgs, genMsg(t, c.Version, idx))
			}
			op.Wait = rapid.SampledFrom([]int{0, 0, 1, 10}).Draw(t, "wait")
		}
		c.Ops = append(c.Ops, op)
	}
	c.Neighbours = rapid.IntRange(0, 3).Draw(t, "neighbours") == 0
	if rapid.IntRange(0, 2).Draw(t, "hasTail") == 0 {
		tl := &Tail{WaitMs: rapid.SampledFrom([]int{0, 0, 2, 20, 100}).Draw(t, "tailWait")}
		k := rapid.SampledFrom([]int{0, 1, 2, 3, 5, 9, 10, 11, 12, 25}).Draw(t, "ktail")
		for j := 0; j < k; j++ {
			idx++
			tl.Msgs = append(tl.Msgs, genMsg(t, c.Version, idx))
		}
		c.Tail = tl
	}
	return c
}

var (
	rigOnce sync.Once
	rig     *shimrig.Rig
	sessCtr int
)

func getRig() *shimrig.Rig {
	rigOnce.Do(func() { rig = shimrig.New(shimrig.Options{}) })
	return rig
}

func encodeClient(m Msg, version int) json.RawMessage {
	d := m.data()
	if !m.Binary {
		b, _ := json.Marshal(string(d))
		return b
	}
	if version == 0 {
		b, _ := json.Marshal([]string{string(d)})
		return b
	}
	b, _ := json.Marshal([]string{base64.StdEncoding.EncodeToString(d)})
	return b
}

// decodePoll decodes a poll reply into messages.
func decodePoll(body []byte, version int) ([]shimrig.WSMsg, error) {
	var arr []json.RawMessage
	if err := json.Unmarshal(body, &arr); err != nil {
		return nil, fmt.Errorf("poll reply is not a JSON array: %v (%q)", err, head(body))
	}
	var out []shimrig.WSMsg
	for _, raw := range arr {
		var s string
		if err := json.Unmarshal(raw, &s); err == nil {
			out = append(out, shimrig.WSMsg{Data: []byte(s)})
			continue
		}
		var one []string
		if err := json.Unmarshal(raw, &one); err != nil || len(one) != 1 {
			return nil, fmt.Errorf("poll reply element is neither a string nor a one-element array: %q", head(raw))
		}
		if version == 0 {
			out = append(out, shimrig.WSMsg{Binary: true, Data: []byte(one[0])})
			continue
		}
		d, err := base64.StdEncoding.DecodeString(one[0])
		if err != nil {
			return nil, fmt.Errorf("binary poll element is not base64: %v", err)
		}
		out = append(out, shimrig.WSMsg{Binary: true, Data: d})
	}
	return out, nil
}

func head(b []byte) string {
	if len(b) > 80 {
		return string(b[:80]) + "…"
	}
	return string(b)
}

func sameMsgs(what string, got, want []shimrig.WSMsg) error {
	for i := 0; i < len(got) && i < len(want); i++ {
		if got[i].Binary != want[i].Binary {
			return fmt.Errorf("%s: message %d changed type (binary %v -> %v)", what, i, want[i].Binary, got[i].Binary)
		}
		if !bytes.Equal(got[i].Data, want[i].Data) {
			return fmt.Errorf("%s: message %d altered, duplicated or out of order: got %d bytes %q, expected %d bytes %q", what, i, len(got[i].Data), head(got[i].Data), len(want[i].Data), head(want[i].Data))
		}
	}
	if len(got) != len(want) {
		return fmt.Errorf("%s: %d messages delivered, %d sent", what, len(got), len(want))
	}
	return nil
}

func runCase(c *Case) vh.Outcome {
	r := getRig()
	o := vh.Outcome{}
	sessCtr++
	key := fmt.Sprintf("/ws/c11-%d", sessCtr)
	var idA, idC string
	var bcC *shimrig.BackendConn
	if c.Neighbours {
		o.Classes = append(o.Classes, "other-sessions-opened-and-closed-meanwhile")
		var ra shimrig.Result
		idA, _, ra = r.Open(key+"-a", c.Version, nil, 10*time.Second)
		if ra.Status != 200 {
			o.Err = fmt.Errorf("open of the neighbouring session failed: status %d", ra.Status)
			return o
		}
	}
	neighbourStep := func() error {
		if cr := r.Call("POST", r.ShimPath+"/close", shimrig.IDBody(idA), nil, 10*time.Second); cr.Status != 200 {
			return fmt.Errorf("close of the neighbouring session answered %d", cr.Status)
		}
		var rc shimrig.Result
		idC, bcC, rc = r.Open(key+"-c", c.Version, nil, 10*time.Second)
		if rc.Status != 200 || bcC == nil {
			return fmt.Errorf("open of a further session failed: status %d", rc.Status)
		}
		bcC.Send(shimrig.WSMsg{Data: []byte("from-the-neighbours-backend")})
		b, _ := json.Marshal("to-the-neighbours-backend")
		if pr := r.Call("POST", r.ShimPath+"/data", shimrig.DataBody(idC, []json.RawMessage{b}), nil, 10*time.Second); pr.Status != 200 {
			return fmt.Errorf("data post on the further session answered %d", pr.Status)
		}
		return nil
	}
	id, bc, res := r.Open(key, c.Version, nil, 10*time.Second)
	if res.Status != 200 || bc == nil {
		o.Err = fmt.Errorf("open failed: status %d body %q panic %v", res.Status, head(res.Body), res.Panic)
		return o
	}
	var sentClient, sentServer, gotServer []shimrig.WSMsg
	sendQ := make(chan shimrig.WSMsg, 2000)
	defer close(sendQ)
	flushed := make(chan struct{}, 1)
	go func() {
		for m := range sendQ {
			if m.Data == nil && m.Binary { // marker: everything queued before has been written; now the backend closes
				bc.Close()
				select {
				case flushed <- struct{}{}:
				default:
				}
				continue
			}
			if m.Data == nil {
				m.Data = []byte{}
			}
			bc.Send(m)
		}
	}()
	hasBin, hasText, bigBurst := false, false, false
	poll := func() error {
		res := r.Call("POST", r.ShimPath+"/poll", shimrig.IDBody(id), nil, 30*time.Second)
		if res.Panic != nil || res.TimedOut {
			return fmt.Errorf("poll did not answer: panic=%v timedOut=%v", res.Panic, res.TimedOut)
		}
		if res.Status != 200 {
			return fmt.Errorf("poll with %d server messages outstanding answered %d %q", len(sentServer)-len(gotServer), res.Status, head(res.Body))
		}
		ms, err := decodePoll(res.Body, c.Version)
		if err != nil {
			return err
		}
		if len(ms) == 0 {
			return fmt.Errorf("poll answered 200 with no messages")
		}
		gotServer = append(gotServer, ms...)
		return sameMsgs("server->client", gotServer, sentServer[:min(len(gotServer), len(sentServer))])
	}
	post := func(msgs []Msg) error {
		var enc []json.RawMessage
		for _, m := range msgs {
			enc = append(enc, encodeClient(m, c.Version))
			sentClient = append(sentClient, shimrig.WSMsg{Binary: m.Binary, Data: m.data()})
		}
		res := r.Call("POST", r.ShimPath+"/data", shimrig.DataBody(id, enc), nil, 30*time.Second)
		if res.Panic != nil || res.TimedOut || res.Status != 200 {
			return fmt.Errorf("data post of %d messages answered %d %q (panic=%v timedOut=%v)", len(msgs), res.Status, head(res.Body), res.Panic, res.TimedOut)
		}
		return nil
	}
	for opIdx, op := range c.Ops {
		if c.Neighbours && opIdx == 1 {
			if err := neighbourStep(); err != nil {
				o.Err = err
				break
			}
		}
		for _, m := range op.Msgs {
			if m.Binary {
				hasBin = true
			} else {
				hasText = true
			}
		}
		switch op.Kind {
		case "post":
			if err := post(op.Msgs); err != nil {
				o.Err = err
			}
		case "burst":
			if len(op.Msgs) > 10 {
				bigBurst = true
			}
			// the backend writes without waiting for polls; beyond the internal buffers its writes just queue up in the socket
			for _, m := range op.Msgs {
				wm := shimrig.WSMsg{Binary: m.Binary, Data: m.data()}
				sendQ <- wm // one ordered sender per session
				sentServer = append(sentServer, wm)
			}
			if op.Wait > 0 {
				time.Sleep(time.Duration(op.Wait) * time.Millisecond)
			}
		case "poll":
			if len(gotServer) < len(sentServer) {
				if err := poll(); err != nil {
					o.Err = err
				}
			}
		case "post+poll":
			var perr error
			var wg sync.WaitGroup
			if len(gotServer) < len(sentServer) {
				wg.Add(1)
				go func() { defer wg.Done(); perr = poll() }()
			}
			if err := post(op.Msgs); err != nil {
				o.Err = err
			}
			wg.Wait()
			if perr != nil && o.Err == nil {
				o.Err = perr
			}
		}
		if o.Err != nil {
			break
		}
	}
	if o.Err == nil && c.Tail != nil {
		// what the client posted must have arrived before the backend closes (a message on its way to a peer that closes is lost on any websocket)
		for deadline := time.Now().Add(10 * time.Second); bc.NumReceived() < len(sentClient) && time.Now().Before(deadline); {
			time.Sleep(time.Millisecond)
		}
		for _, m := range c.Tail.Msgs {
			wm := shimrig.WSMsg{Binary: m.Binary, Data: m.data()}
			sendQ <- wm
			sentServer = append(sentServer, wm)
			if m.Binary {
				hasBin = true
			} else {
				hasText = true
			}
		}
		// the close follows the messages in the backend's own order of writing; the client polls meanwhile (waiting for
		// everything to be written first would stall: nobody drains the agent while the harness waits)
		sendQ <- shimrig.WSMsg{Binary: true} // marker: close after everything queued so far
		pendingAtClose := len(sentServer) - len(gotServer)
		time.Sleep(time.Duration(c.Tail.WaitMs) * time.Millisecond)
		o.Classes = append(o.Classes, "backend-closes-at-the-end")
		if pendingAtClose > 10 {
			o.Classes = append(o.Classes, "backend-closes-with>10-undelivered")
		} else if pendingAtClose > 0 {
			o.Classes = append(o.Classes, "backend-closes-with-1..10-undelivered")
		}
		for n := 0; o.Err == nil; n++ {
			res := r.Call("POST", r.ShimPath+"/poll", shimrig.IDBody(id), nil, 30*time.Second)
			if res.Panic != nil || res.TimedOut {
				o.Err = fmt.Errorf("poll after the backend closed did not answer: panic=%v timedOut=%v", res.Panic, res.TimedOut)
				break
			}
			if res.Status != 200 {
				if len(gotServer) < len(sentServer) {
					o.Err = fmt.Errorf("the backend sent %d messages and then closed the websocket; %d of them were still undelivered at that moment; poll %d after the close answered %d although only %d of the %d messages had been delivered", len(sentServer), pendingAtClose, n+1, res.Status, len(gotServer), len(sentServer))
				}
				break
			}
			ms, err := decodePoll(res.Body, c.Version)
			if err != nil {
				o.Err = err
				break
			}
			gotServer = append(gotServer, ms...)
			if len(gotServer) > len(sentServer) {
				o.Err = fmt.Errorf("server->client: %d messages delivered, %d sent", len(gotServer), len(sentServer))
				break
			}
			o.Err = sameMsgs("server->client", gotServer, sentServer[:len(gotServer)])
			if n > len(sentServer)+5 {
				o.Err = fmt.Errorf("the session was still not reported closed %d polls after the backend closed it", n)
			}
		}
	}
	// drain: everything the backend sent must arrive through polls
	for o.Err == nil && len(gotServer) < len(sentServer) {
		if err := poll(); err != nil {
			o.Err = err
		}
	}
	if o.Err == nil {
		deadline := time.Now().Add(10 * time.Second)
		for bc.NumReceived() < len(sentClient) && time.Now().Before(deadline) {
			time.Sleep(time.Millisecond)
		}
		time.Sleep(2 * time.Millisecond) // a duplicate would show up right behind
		o.Err = sameMsgs("client->server", bc.Received(), sentClient)
	}
	if o.Err == nil && bcC != nil {
		// the further session got exactly its own message, and its backend's message is still waiting for it
		for deadline := time.Now().Add(5 * time.Second); bcC.NumReceived() < 1 && time.Now().Before(deadline); {
			time.Sleep(time.Millisecond)
		}
		if got := bcC.Received(); len(got) != 1 || string(got[0].Data) != "to-the-neighbours-backend" {
			o.Err = fmt.Errorf("a further session opened after an older one was closed: its backend received %d messages instead of the one posted to it (session ids: this %q, closed %q, further %q)", len(got), id, idA, idC)
		} else if pr := r.Call("POST", r.ShimPath+"/poll", shimrig.IDBody(idC), nil, 30*time.Second); pr.Status != 200 || !strings.Contains(string(pr.Body), "from-the-neighbours-backend") {
			o.Err = fmt.Errorf("a further session opened after an older one was closed: its poll answered %d %q instead of its backend's message (session ids: this %q, closed %q, further %q)", pr.Status, head(pr.Body), id, idA, idC)
		}
	}
	if idC != "" {
		r.Call("POST", r.ShimPath+"/close", shimrig.IDBody(idC), nil, 5*time.Second)
	}
	r.Call("POST", r.ShimPath+"/close", shimrig.IDBody(id), nil, 5*time.Second)
	o.NonTrivial = hasBin && hasText && bigBurst
	if hasBin {
		o.Classes = append(o.Classes, "binary")
	}
	if bigBurst {
		o.Classes = append(o.Classes, "burst>10")
	}
	for _, op := range c.Ops {
		if (op.Kind == "post" || op.Kind == "post+poll") && len(op.Msgs) > 10 {
			o.Classes = append(o.Classes, "post>10")
		}
		for _, m := range op.Msgs {
			if m.Size >= 1<<20 {
				o.Classes = append(o.Classes, "1MiB-message")
			}
		}
	}
	o.Classes = append(o.Classes, fmt.Sprintf("version=%d", c.Version))
	return o
}

func TestPropDelivery(t *testing.T) {
	vh.Rapid(t, vh.Scale(300, 8000), func(rt *rapid.T) {
		c := genCase(rt)
		recD.Check(rt, &c, func() vh.Outcome { return runCase(&c) })
	})
}

// ------------------------------------------------------------ injection

type InjCase struct {
	Headers []vh.HeaderField `json:"headers"`
	Kind    string           `json:"kind"`
	Present []string         `json:"present,omitempty"` // header names already present in resource.headers
	Binary  bool             `json:"binary,omitempty"`
	Extra   string           `json:"extra,omitempty"`
}

var (
	injOnce sync.Once
	injRig  *shimrig.Rig
	injID   string
	injBC   *shimrig.BackendConn
)

func genInj(t *rapid.T) InjCase {
	c := InjCase{Kind: rapid.SampledFrom([]string{"injectable", "injectable", "injectable", "injectable-big-numbers", "no-resource", "resource-not-object", "headers-not-object",
		"array", "scalar", "invalid-json", "empty-object", "nested-deeper", "two-documents", "object-plus-trailer", "object-plus-whitespace"}).Draw(t, "kind"), Binary: rapid.IntRange(0, 3).Draw(t, "bin") == 0}
	names := []string{"Authorization", "X-Custom", "Cookie", "X-Forwarded-For", "Accept-Language"}
	n := rapid.IntRange(0, 4).Draw(t, "nheaders")
	for _, nm := range rapid.Permutation(names).Draw(t, "names")[:n] {
		c.Headers = append(c.Headers, vh.HeaderField{Name: nm, Value: rapid.StringMatching(`[ -~]{0,12}`).Draw(t, "hv")})
	}
	np := rapid.IntRange(0, 3).Draw(t, "npresent")
	c.Present = rapid.Permutation(append([]string{"Other", "authorization"}, names...)).Draw(t, "pnames")[:np]
	c.Extra = rapid.SampledFrom([]string{"", "x", "ünï", `q"uote`}).Draw(t, "extra")
	return c
}

func (c *InjCase) message() []byte {
	hdrs := map[string]any{}
	for _, p := range c.Present {
		hdrs[p] = "original-" + p
	}
	switch c.Kind {
	case "injectable":
		b, _ := json.Marshal(map[string]any{"resource": map[string]any{"headers": hdrs, "uri": "/x" + c.Extra}, "n": 17, "f": 0.5, "list": []any{1, "a", nil, true}})
		return b
	case "injectable-big-numbers":
		// numbers that binary64 cannot hold exactly: they are part of the message and must arrive as the same JSON values
		h, _ := json.Marshal(hdrs)
		return []byte(`{"resource":{"headers":` + string(h) + `},"id":9007199254740993,"max":18446744073709551615,"neg":-9223372036854775809,"dec":0.1000000000000000055511151231257827,"list":[12345678901234567890123,1.5]}`)
	case "nested-deeper":
		b, _ := json.Marshal(map[string]any{"resource": map[string]any{"headers": hdrs, "inner": map[string]any{"resource": map[string]any{"headers": map[string]any{}}}}})
		return b
	case "two-documents":
		b, _ := json.Marshal(map[string]any{"resource": map[string]any{"headers": hdrs}, "n": 1})
		return append(append(b, '\n'), []byte(`{"resource":{"headers":{}},"n":2}`)...)
	case "object-plus-trailer":
		b, _ := json.Marshal(map[string]any{"resource": map[string]any{"headers": hdrs}})
		return append(b, []byte(" #crc=9f3a"+c.Extra)...)
	case "object-plus-whitespace":
		b, _ := json.Marshal(map[string]any{"resource": map[string]any{"headers": hdrs}, "n": 3})
		return append([]byte("  \n"), append(b, []byte(" \n\t ")...)...)
	case "no-resource":
		return []byte(`{"foo": {"headers": {}},   "bar":[1,2,3], "s": "` + "x" + `"}`)
	case "resource-not-object":
		return []byte(`{"resource": "just a string", "z":   1}`)
	case "headers-not-object":
		return []byte(`{"resource": {"headers": ["a","b"]},  "k": null}`)
	case "array":
		return []byte(`[ {"resource": {"headers": {}}} ]`)
	case "scalar":
		return []byte(`  42 `)
	case "empty-object":
		return []byte(`{ }`)
	default:
		return []byte(`{"resource": {"headers": {` + c.Extra)
	}
}

// decodeExact decodes JSON keeping numbers exact: every number becomes the canonical text of its rational value, so
// that 1.0 and 1 compare equal but 9007199254740993 and 9007199254740992 do not.
func decodeExact(data []byte, into *any) error {
	dec := json.NewDecoder(bytes.NewReader(data))
	dec.UseNumber()
	var v any
	if err := dec.Decode(&v); err != nil {
		return err
	}
	*into = exactNumbers(v)
	return nil
}

func exactNumbers(v any) any {
	switch x := v.(type) {
	case json.Number:
		if r, ok := new(big.Rat).SetString(string(x)); ok {
			return "number:" + r.RatString()
		}
		return "number:" + string(x)
	case map[string]any:
		for k, e := range x {
			x[k] = exactNumbers(e)
		}
	case []any:
		for i, e := range x {
			x[i] = exactNumbers(e)
		}
	}
	return v
}

func runInj(c *InjCase) vh.Outcome {
	injOnce.Do(func() {
		injRig = shimrig.New(shimrig.Options{Injection: true})
		injID, injBC, _ = injRig.Open("/ws/c11-inject", 1, nil, 10*time.Second)
	})
	o := vh.Outcome{}
	if injBC == nil {
		o.Inconclusive = "could not open the injection session"
		return o
	}
	msg := c.message()
	var enc json.RawMessage
	if c.Binary {
		enc, _ = json.Marshal([]string{base64.StdEncoding.EncodeToString(msg)})
	} else {
		enc, _ = json.Marshal(string(msg))
	}
	hdr := http.Header{}
	for _, f := range c.Headers {
		hdr.Set(f.Name, f.Value)
	}
	before := injBC.NumReceived()
	res := injRig.Call("POST", injRig.ShimPath+"/data", shimrig.DataBody(injID, []json.RawMessage{enc}), hdr, 10*time.Second)
	if res.Status != 200 {
		o.Err = fmt.Errorf("data post answered %d %q (panic=%v)", res.Status, head(res.Body), res.Panic)
		return o
	}
	deadline := time.Now().Add(10 * time.Second)
	for injBC.NumReceived() <= before && time.Now().Before(deadline) {
		time.Sleep(200 * time.Microsecond)
	}
	all := injBC.Received()
	if len(all) != before+1 {
		o.Err = fmt.Errorf("backend received %d messages for one sent", len(all)-before)
		return o
	}
	got := all[before]
	if got.Binary != c.Binary {
		o.Err = fmt.Errorf("message type changed by injection")
		return o
	}
	injectable := c.Kind == "injectable" || c.Kind == "nested-deeper" || c.Kind == "object-plus-whitespace" || c.Kind == "injectable-big-numbers"
	o.Classes = append(o.Classes, c.Kind)
	if !injectable {
		if !bytes.Equal(got.Data, msg) {
			o.Err = fmt.Errorf("a message that is not a JSON object with a resource.headers object was changed: sent %q, backend received %q", head(msg), head(got.Data))
		}
		return o
	}
	o.NonTrivial = len(c.Headers) > 0
	var want, have any
	decodeExact(msg, &want)
	if err := decodeExact(got.Data, &have); err != nil {
		o.Err = fmt.Errorf("injected message is not valid JSON: %v", err)
		return o
	}
	wh := want.(map[string]any)["resource"].(map[string]any)["headers"].(map[string]any)
	added := 0
	for k, v := range hdr {
		if _, ok := wh[k]; !ok {
			wh[k] = v[0]
			added++
		}
	}
	if added > 0 {
		o.Classes = append(o.Classes, "header-added")
	}
	if added < len(hdr) {
		o.Classes = append(o.Classes, "header-already-present")
	}
	if !reflect.DeepEqual(want, have) {
		w, _ := json.Marshal(want)
		o.Err = fmt.Errorf("injection result differs from 'sent plus the request headers not already present': expected %s, backend received %s", head(w), head(got.Data))
	}
	return o
}

func TestPropHeaderInjection(t *testing.T) {
	vh.Rapid(t, vh.Scale(3000, 60000), func(rt *rapid.T) {
		c := genInj(rt)
		recI.Check(rt, &c, func() vh.Outcome { return runInj(&c) })
	})
}

// FuzzInject drives the same oracle from raw bytes: arbitrary message payloads must arrive unchanged unless injectable.
func FuzzInject(f *testing.F) {
	f.Add([]byte(`{"resource":{"headers":{}}}`), "X-A", "v")
	f.Add([]byte(`{"resource":{"headers":{"X-A":"1"}}}`), "X-A", "v")
	f.Add([]byte(`[1,2]`), "Cookie", "a=b")
	f.Add([]byte(`{"resource":1}`), "", "")
	f.Fuzz(func(t *testing.T, msg []byte, hname, hval string) {
		injOnce.Do(func() {
			injRig = shimrig.New(shimrig.Options{Injection: true})
			injID, injBC, _ = injRig.Open("/ws/c11-inject", 1, nil, 10*time.Second)
		})
		if injBC == nil {
			t.Skip()
		}
		hdr := http.Header{}
		if hname != "" {
			hn := http.CanonicalHeaderKey(hname)
			for _, ch := range hn + hval {
				if ch < 32 || ch > 126 || ch == ':' {
					t.Skip()
				}
			}
			hdr[hn] = []string{hval}
		}
		enc, _ := json.Marshal([]string{base64.StdEncoding.EncodeToString(msg)})
		before := injBC.NumReceived()
		res := injRig.Call("POST", injRig.ShimPath+"/data", shimrig.DataBody(injID, []json.RawMessage{enc}), hdr, 10*time.Second)
		if res.Status != 200 {
			t.Fatalf("data post answered %d (panic=%v)", res.Status, res.Panic)
		}
		deadline := time.Now().Add(10 * time.Second)
		for injBC.NumReceived() <= before && time.Now().Before(deadline) {
			time.Sleep(200 * time.Microsecond)
		}
		all := injBC.Received()
		if len(all) != before+1 {
			t.Fatalf("backend received %d messages for one sent", len(all)-before)
		}
		got := all[before].Data
		var v any
		isInjectable := false
		if json.Unmarshal(msg, &v) == nil {
			if obj, ok := v.(map[string]any); ok {
				if res, ok := obj["resource"].(map[string]any); ok {
					_, isInjectable = res["headers"].(map[string]any)
				}
			}
		}
		if !isInjectable || len(hdr) == 0 {
			if !bytes.Equal(got, msg) {
				t.Fatalf("non-injectable message changed: %q -> %q", msg, got)
			}
		}
	})
}

func TestReplay(t *testing.T) {
	var c Case
	if ok, err := vh.ReplayCase("delivery", &c); err != nil {
		t.Fatalf("INFRA: %v", err)
	} else if ok {
		for i := 0; i < vh.ReplayRuns(); i++ {
			recD.Check(t, &c, func() vh.Outcome { return runCase(&c) })
		}
		return
	}
	var ic InjCase
	if ok, _ := vh.ReplayCase("header-injection", &ic); ok {
		recI.Check(t, &ic, func() vh.Outcome { return runInj(&ic) })
		return
	}
	t.Skip("no replay for this package")
}
