package c11

import (
	"encoding/json"
	"fmt"
	"sync"
	"testing"
	"time"

	"pgregory.net/rapid"
	"verif/harness/shimrig"
	"verif/harness/vh"
)

// Third part: the client closes the session right after a data post that the shim accepted, while the backend is
// still reading slowly. Everything the post carried has been sent by the client and must reach the backend.
var recC = vh.NewRecorder("C11", "close-after-burst",
	"4 sessions at a time against a backend that reads slowly through a 64 KiB receive buffer: one data post of 12-24 "+
		"messages of 256 KiB-1 MiB (more than the 10-message buffer and the socket buffers hold), answered 200, followed at once "+
		"by a close call; oracle: the backend receives exactly the posted messages, in order, before it sees the connection "+
		"closed; non-trivial = every case; distinct = SHA-256 of the canonical case")

type CloseSession struct {
	Count  int  `json:"messages"`
	Size   int  `json:"message_size"`
	Binary bool `json:"binary"`
}

type CloseCase struct {
	Sessions []CloseSession `json:"sessions"`
}

var closeCtr int

func runCloseSession(n int, s *CloseSession) error {
	r := getRig()
	id, bc, res := r.Open(fmt.Sprintf("/slow/c11-close-%d", n), 1, nil, 15*time.Second)
	if res.Status != 200 || bc == nil {
		return fmt.Errorf("open answered %d", res.Status)
	}
	var enc []json.RawMessage
	var sent []shimrig.WSMsg
	for i := 0; i < s.Count; i++ {
		m := Msg{Binary: s.Binary, Size: s.Size, Seed: fmt.Sprintf("close-%d-%d", n, i)}
		enc = append(enc, encodeClient(m, 1))
		sent = append(sent, shimrig.WSMsg{Binary: m.Binary, Data: m.data()})
	}
	pres := r.Call("POST", r.ShimPath+"/data", shimrig.DataBody(id, enc), nil, 60*time.Second)
	if pres.Panic != nil || pres.TimedOut || pres.Status != 200 {
		return fmt.Errorf("data post of %d messages answered %d (panic=%v timedOut=%v)", s.Count, pres.Status, pres.Panic, pres.TimedOut)
	}
	cres := r.Call("POST", r.ShimPath+"/close", shimrig.IDBody(id), nil, 60*time.Second)
	if cres.Panic != nil || cres.TimedOut || cres.Status != 200 {
		return fmt.Errorf("close after the data post answered %d (panic=%v timedOut=%v)", cres.Status, cres.Panic, cres.TimedOut)
	}
	// the backend reads on until it sees the connection closed
	select {
	case <-bc.Closed():
	case <-time.After(60 * time.Second):
		return fmt.Errorf("the backend did not see the connection closed within 60s of the close call (received %d of %d messages)", bc.NumReceived(), s.Count)
	}
	got := bc.Received()
	if len(got) != len(sent) {
		return fmt.Errorf("a data post of %d messages (%d bytes each) and the close call that followed both answered 200, but the backend received %d messages before the connection was closed", len(sent), s.Size, len(got))
	}
	return sameMsgs("client->server", got, sent)
}

func runCloseCase(c *CloseCase) vh.Outcome {
	o := vh.Outcome{NonTrivial: true}
	errs := make([]error, len(c.Sessions))
	var wg sync.WaitGroup
	for i := range c.Sessions {
		i := i
		closeCtr++
		n := closeCtr
		wg.Add(1)
		go func() {
			defer wg.Done()
			errs[i] = runCloseSession(n, &c.Sessions[i])
		}()
	}
	wg.Wait()
	for _, e := range errs {
		if e != nil {
			o.Err = e
			break
		}
	}
	return o
}

func TestPropCloseAfterBurst(t *testing.T) {
	vh.Rapid(t, vh.Scale(3, 40), func(rt *rapid.T) {
		var c CloseCase
		for i := 0; i < 4; i++ {
			c.Sessions = append(c.Sessions, CloseSession{
				Count:  rapid.IntRange(12, 24).Draw(rt, "count"),
				Size:   rapid.SampledFrom([]int{1 << 20, 512 << 10, 256 << 10}).Draw(rt, "size"),
				Binary: rapid.Bool().Draw(rt, "binary"),
			})
		}
		recC.Check(rt, &c, func() vh.Outcome { return runCloseCase(&c) })
	})
}

func TestReplayCloseAfterBurst(t *testing.T) {
	var c CloseCase
	if ok, _ := vh.ReplayCase("close-after-burst", &c); !ok {
		t.Skip("no replay for this part")
	}
	recC.Check(t, &c, func() vh.Outcome { return runCloseCase(&c) })
}
