// Package c02 checks property C02: the backend receives the client's request unaltered.
package c02

import (
	"bytes"
	"fmt"
	"strings"
	"sync"
	"testing"
	"time"

	"pgregory.net/rapid"
	"verif/harness/vh"
)

var rec = vh.NewRecorder("C02", "request-roundtrip",
	"raw HTTP/1.1 requests from a grammar (method, origin-form target with escapes/unclean segments/queries, Host, "+
		"usually one request per case, sometimes 2-6 at the same time; 0-8 end-to-end fields incl. repeated list-type fields and long/empty values, hop-by-hop fields, body none/"+
		"Content-Length/chunked at sizes around 4096/32768/1MiB) sent through server+agent binaries to a recording raw "+
		"backend; non-trivial = escaped or unclean path, non-empty query, repeated field, body >= 4096 or chunked body; "+
		"distinct = SHA-256 of the canonical case"+
		" Later additions: field names that merely resemble hop-by-hop names (Proxy-Status, Connection-Id, Keep-Alive-Info, Te-Custom, ...); some cases send 2-6 generated requests at the same time.")

func TestMain(m *testing.M) { vh.Main(m, rec) }

// ReqCase is one generated client request.
type ReqCase struct {
	Method     string           `json:"method"`
	Target     string           `json:"target"`
	Host       string           `json:"host"`
	Fields     []vh.HeaderField `json:"fields"`
	Hop        []vh.HeaderField `json:"hop"`
	BodyMode   string           `json:"body_mode"` // none | cl | chunked
	BodySize   int              `json:"body_size"`
	ChunkSizes []int            `json:"chunk_sizes,omitempty"`
	// Wrapped: the agent runs with session tracking, websocket shim and banner enabled. A request that carries no
	// cookies and does not address the shim path is none of their business and must arrive as it would otherwise.
	Wrapped bool `json:"agent_with_sessions_shim_banner,omitempty"`
}

var (
	bodyMethods   = []string{"POST", "PUT", "PATCH", "DELETE", "REPORT", "X-CUSTOM"}
	nobodyMethods = []string{"GET", "HEAD", "OPTIONS", "DELETE", "PROPFIND"}
	segs          = []string{"a", "b", "index.html", "%2F", "%2f", "%20", "%C3%A9", "%c3%a9", "%3B", "%25", ".", "..", "",
		"a;v=1", "x=y", "a+b", "~u", "a,b", "a:b", "@me", "(x)", "a'b", "a!", "$1", "*", "a&b", "%7Euser", "%41"}
	qparts = []string{"a=1", "a=2", "b=", "=c", "k", "x=%20y", "x=a+b", "", "arr[]=1", "arr[]=2", "u=%C3%A9", "p=/x/y?z",
		"e=%2F%2f", "c=:@!$'()*,", "long=" + strings.Repeat("q", 300)}
	singletons = []string{"Content-Type", "Authorization", "Referer", "Origin", "If-None-Match", "If-Modified-Since",
		"Range", "Accept-Encoding", "User-Agent", "X-Requested-With", "Content-Encoding", "Content-Language", "Date",
		"Max-Forwards", "From", "If-Match", "DNT",
		// end-to-end fields whose names merely resemble hop-by-hop ones
		"Proxy-Status", "Proxy-Support", "Connection-Id", "Keep-Alive-Info", "Upgrade-Insecure-Requests", "Trailer-Info", "Te-Custom"}
	listFields = []string{"Accept", "Accept-Language", "Cache-Control", "Cookie", "Via", "X-Forwarded-For", "Pragma",
		"Accept-Charset", "Forwarded"}
	hopFields = [][2]string{{"Connection", "keep-alive"}, {"Keep-Alive", "timeout=5"}, {"Proxy-Authorization", "Basic Zm9vOmJhcg=="},
		{"TE", "trailers"}, {"Proxy-Authenticate", "Basic"}, {"Upgrade", "foo/2"}, {"Connection", "x-hop"}}
	sizes = []int{0, 1, 2, 100, 4095, 4096, 4097, 5000, 32767, 32768, 32769, 65536, 200000, 1 << 20}
)

func mixCase(t *rapid.T, s string) string {
	switch rapid.IntRange(0, 3).Draw(t, "case") {
	case 0:
		return strings.ToLower(s)
	case 1:
		return strings.ToUpper(s)
	default:
		return s
	}
}

// realistic values of well-known fields (what browsers, API clients and intermediaries really send): code that looks at
// a field's meaning rather than its syntax only reacts to these
var realistic = map[string][]string{
	"accept":                    {"text/html,application/xhtml+xml,application/xml;q=0.9,image/avif,image/webp,*/*;q=0.8", "application/json", "*/*", "text/html", "image/webp,*/*"},
	"accept-encoding":           {"gzip, deflate, br", "gzip", "br;q=1.0, gzip;q=0.8, *;q=0.1", "deflate", "zstd"},
	"accept-language":           {"en-US,en;q=0.5", "de-CH"},
	"accept-charset":            {"utf-8, iso-8859-1;q=0.5"},
	"user-agent":                {"Mozilla/5.0 (X11; Linux x86_64; rv:126.0) Gecko/20100101 Firefox/126.0", "curl/8.5.0", "Go-http-client/1.1"},
	"cache-control":             {"no-cache", "max-age=0", "no-store", "only-if-cached"},
	"pragma":                    {"no-cache"},
	"cookie":                    {"sid=abc123; theme=dark", "a=b"},
	"content-type":              {"application/json", "application/x-www-form-urlencoded", "multipart/form-data; boundary=----x", "text/html; charset=utf-8", "application/grpc"},
	"content-encoding":          {"gzip", "identity", "br"},
	"range":                     {"bytes=0-99", "bytes=100-", "bytes=-5"},
	"if-none-match":             {`"abc"`, `W/"xyz", "abc"`, "*"},
	"if-match":                  {`"abc"`, "*"},
	"if-modified-since":         {"Wed, 21 Oct 2015 07:28:00 GMT"},
	"date":                      {"Wed, 21 Oct 2015 07:28:00 GMT"},
	"referer":                   {"https://example.com/page?x=1", "http://c02.example/"},
	"origin":                    {"https://example.com", "null"},
	"authorization":             {"Bearer eyJhbGciOi.J9.abc", "Basic dXNlcjpwYXNz"},
	"x-requested-with":          {"XMLHttpRequest"},
	"upgrade-insecure-requests": {"1"},
	"dnt":                       {"1"},
	"max-forwards":              {"0", "1", "10"},
	"via":                       {"1.1 vegur", "HTTP/1.1 GWA"},
	"x-forwarded-for":           {"203.0.113.7", "203.0.113.7, 198.51.100.2"},
	"forwarded":                 {"for=192.0.2.60;proto=http;by=203.0.113.43"},
	"from":                      {"webmaster@example.org"},
}

// genValueFor draws a value for the named field: a realistic one in half of the draws when the field is well known.
func genValueFor(t *rapid.T, name string) string {
	if vs := realistic[strings.ToLower(name)]; len(vs) > 0 && rapid.Bool().Draw(t, "realistic") {
		return rapid.SampledFrom(vs).Draw(t, "rv")
	}
	return genValue(t)
}

func genValue(t *rapid.T) string {
	switch rapid.IntRange(0, 9).Draw(t, "vkind") {
	case 0:
		return ""
	case 1:
		n := rapid.SampledFrom([]int{100, 1000, 4096, 8000}).Draw(t, "vlen")
		return strings.Repeat("v", n-1) + "!"
	case 2:
		return rapid.StringMatching(`[!-~]{1,6}([ \t]{1,3}[!-~]{1,6}){1,3}`).Draw(t, "vws")
	default:
		return rapid.StringMatching(`[!-~]{1,24}`).Draw(t, "v")
	}
}

func hasField(fs []vh.HeaderField, name string) bool {
	for _, f := range fs {
		if strings.EqualFold(f.Name, name) {
			return true
		}
	}
	return false
}

func genCase(t *rapid.T) ReqCase {
	var c ReqCase
	hasBody := rapid.Bool().Draw(t, "hasBody")
	if hasBody {
		c.Method = rapid.SampledFrom(bodyMethods).Draw(t, "method")
		c.BodyMode = rapid.SampledFrom([]string{"cl", "chunked"}).Draw(t, "bodyMode")
		if rapid.IntRange(0, 3).Draw(t, "randSize") == 0 {
			c.BodySize = rapid.IntRange(0, 70000).Draw(t, "bodySize")
		} else {
			c.BodySize = rapid.SampledFrom(sizes).Draw(t, "bodySizeC")
		}
		if vh.Thorough() && rapid.IntRange(0, 60).Draw(t, "huge") == 0 {
			c.BodySize = rapid.SampledFrom([]int{8 << 20, 16<<20 + 1, 32 << 20}).Draw(t, "hugeSize")
		}
		if c.BodyMode == "chunked" {
			c.ChunkSizes = rapid.SliceOfN(rapid.SampledFrom([]int{1, 2, 7, 100, 1024, 4095, 4096, 4097, 32768, 100000}), 1, 5).Draw(t, "chunks")
		}
	} else {
		c.Method = rapid.SampledFrom(nobodyMethods).Draw(t, "method")
		c.BodyMode = "none"
	}
	// target
	n := rapid.IntRange(0, 5).Draw(t, "nseg")
	var sb strings.Builder
	for i := 0; i < n; i++ {
		sb.WriteByte('/')
		if rapid.IntRange(0, 2).Draw(t, "segkind") == 0 {
			sb.WriteString(rapid.StringMatching(`[A-Za-z0-9_.~-]{1,8}`).Draw(t, "seg"))
		} else {
			sb.WriteString(rapid.SampledFrom(segs).Draw(t, "segc"))
		}
	}
	if n == 0 || rapid.IntRange(0, 4).Draw(t, "trail") == 0 {
		sb.WriteByte('/')
	}
	switch rapid.IntRange(0, 4).Draw(t, "qkind") {
	case 0:
	case 1:
		sb.WriteByte('?')
	default:
		sb.WriteByte('?')
		sb.WriteString(strings.Join(rapid.SliceOfN(rapid.SampledFrom(qparts), 1, 5).Draw(t, "q"), "&"))
	}
	c.Target = sb.String()
	c.Host = rapid.SampledFrom([]string{"example.com", "example.com:8443", "a.b.example.org", "127.0.0.1:9", "EXAMPLE.com", "[::1]:8080", "x"}).Draw(t, "host")
	// end-to-end fields
	nf := rapid.IntRange(0, 8).Draw(t, "nfields")
	used := map[string]bool{}
	for i := 0; i < nf; i++ {
		switch rapid.IntRange(0, 3).Draw(t, "fkind") {
		case 0: // singleton, once
			name := rapid.SampledFrom(singletons).Draw(t, "sname")
			if used[strings.ToLower(name)] {
				continue
			}
			used[strings.ToLower(name)] = true
			v := genValueFor(t, name)
			if v == "" && (name == "Accept-Encoding" || name == "User-Agent") {
				v = "identity" // an empty value makes Go's transport add its default next to it (allowed by the property)
			}
			c.Fields = append(c.Fields, vh.HeaderField{Name: mixCase(t, name), Value: v})
		case 1: // list-type, 1..3 lines
			name := rapid.SampledFrom(listFields).Draw(t, "lname")
			k := rapid.IntRange(1, 3).Draw(t, "mult")
			for j := 0; j < k; j++ {
				c.Fields = append(c.Fields, vh.HeaderField{Name: mixCase(t, name), Value: genValueFor(t, name)})
			}
		default: // custom
			name := "X-" + rapid.StringMatching(`[A-Za-z][A-Za-z0-9-]{0,10}`).Draw(t, "cname")
			ln := strings.ToLower(name)
			if strings.HasPrefix(ln, "x-inverting-proxy") || strings.HasPrefix(ln, "x-verif") || ln == "x-forwarded-for" {
				continue
			}
			k := rapid.IntRange(1, 3).Draw(t, "cmult")
			for j := 0; j < k; j++ {
				c.Fields = append(c.Fields, vh.HeaderField{Name: name, Value: genValue(t)})
			}
		}
	}
	if rapid.IntRange(0, 5).Draw(t, "browser") == 0 {
		// the header set of a browser navigation (fields not drawn above)
		for _, f := range [][2]string{{"Accept", realistic["accept"][0]}, {"Accept-Encoding", "gzip, deflate, br"}, {"Accept-Language", "en-US,en;q=0.5"},
			{"User-Agent", realistic["user-agent"][0]}, {"Sec-Fetch-Dest", "document"}, {"Sec-Fetch-Mode", "navigate"}, {"Sec-Fetch-Site", "same-origin"},
			{"Sec-Fetch-User", "?1"}, {"Upgrade-Insecure-Requests", "1"}} {
			if !used[strings.ToLower(f[0])] && !hasField(c.Fields, f[0]) {
				used[strings.ToLower(f[0])] = true
				c.Fields = append(c.Fields, vh.HeaderField{Name: f[0], Value: f[1]})
			}
		}
	}
	nh := rapid.IntRange(0, 2).Draw(t, "nhop")
	for i := 0; i < nh; i++ {
		h := rapid.SampledFrom(hopFields).Draw(t, "hop")
		c.Hop = append(c.Hop, vh.HeaderField{Name: mixCase(t, h[0]), Value: h[1]})
	}
	return c
}

func (c *ReqCase) wire(tok string) ([]byte, []byte) {
	var b bytes.Buffer
	fmt.Fprintf(&b, "%s %s HTTP/1.1\r\nHost: %s\r\n", c.Method, c.Target, c.Host)
	// interleave hop fields and end-to-end fields deterministically
	for i, f := range c.Fields {
		if i < len(c.Hop) {
			fmt.Fprintf(&b, "%s: %s\r\n", c.Hop[i].Name, c.Hop[i].Value)
		}
		fmt.Fprintf(&b, "%s: %s\r\n", f.Name, f.Value)
	}
	for i := len(c.Fields); i < len(c.Hop); i++ {
		fmt.Fprintf(&b, "%s: %s\r\n", c.Hop[i].Name, c.Hop[i].Value)
	}
	fmt.Fprintf(&b, "%s: %s\r\n", vh.TokenHeader, tok)
	var body []byte
	switch c.BodyMode {
	case "cl":
		body = vh.Payload(fmt.Sprint("c02-", c.BodySize, c.Target), c.BodySize)
		fmt.Fprintf(&b, "Content-Length: %d\r\n\r\n", len(body))
		b.Write(body)
	case "chunked":
		body = vh.Payload(fmt.Sprint("c02-", c.BodySize, c.Target), c.BodySize)
		b.WriteString("Transfer-Encoding: chunked\r\n\r\n")
		b.Write(vh.ChunkedEncode(body, c.ChunkSizes, nil))
	default:
		b.WriteString("\r\n")
	}
	return b.Bytes(), body
}

var hopNames = []string{"Connection", "Keep-Alive", "Proxy-Authenticate", "Proxy-Authorization", "TE", "Trailer", "Upgrade", "Proxy-Connection"}

var (
	e2eOnce sync.Once
	e2e     *vh.E2E
	e2eErr  error
)

func stack(t vh.TB) *vh.E2E {
	e2eOnce.Do(func() { e2e, e2eErr = vh.NewE2E(nil) })
	if e2eErr != nil {
		t.Fatalf("INFRA: cannot start stack: %v", e2eErr)
	}
	return e2e
}

func classify(c *ReqCase) (bool, []string) {
	var cl []string
	nt := false
	path := c.Target
	q := ""
	if i := strings.IndexByte(path, '?'); i >= 0 {
		path, q = path[:i], path[i+1:]
	}
	if strings.Contains(path, "%") {
		cl = append(cl, "escaped-path")
		nt = true
	}
	if strings.Contains(path, "//") || strings.Contains(path, "/./") || strings.Contains(path, "/../") || strings.HasSuffix(path, "/..") || strings.HasSuffix(path, "/.") {
		cl = append(cl, "unclean-path")
		nt = true
	}
	if q != "" {
		cl = append(cl, "query")
		nt = true
	}
	if strings.HasSuffix(c.Target, "?") {
		cl = append(cl, "bare-question-mark")
	}
	seen := map[string]int{}
	for _, f := range c.Fields {
		seen[strings.ToLower(f.Name)]++
		if f.Value == "" {
			cl = append(cl, "empty-value")
		}
		if len(f.Value) >= 1000 {
			cl = append(cl, "long-value")
		}
	}
	for _, n := range seen {
		if n > 1 {
			cl = append(cl, "repeated-field")
			nt = true
			break
		}
	}
	if len(c.Hop) > 0 {
		cl = append(cl, "hop-by-hop")
	}
	if c.BodyMode == "chunked" {
		cl = append(cl, "chunked-body")
		nt = true
	}
	if c.BodySize >= 4096 {
		cl = append(cl, "body>=4096")
		nt = true
	}
	if c.BodySize >= 1<<20 {
		cl = append(cl, "body>=1MiB")
	}
	return nt, cl
}

// runCase sends the request through the real binaries and compares what the backend got.
var (
	e2eWOnce sync.Once
	e2eW     *vh.E2E
	e2eWErr  error
)

func stackW(t vh.TB) *vh.E2E {
	e2eWOnce.Do(func() {
		e2eW, e2eWErr = vh.NewE2E([]string{"--session-cookie-name=agent-session", "--disable-ssl-for-test", "--shim-websockets", "--shim-path=shim",
			"--debug", "--favicon-url=https://example.com/favicon.ico", "--banner-height=50px", "--enable-websockets-injection", "--rewrite-websocket-host",
			"--session-cookie-timeout=1h", "--session-cookie-cache-limit=100", "--proxy-timeout=90s", "--disable-gce-vm-header", "--graceful-shutdown-timeout=1s",
			"--inject-banner=<b>verif banner</b>"})
	})
	if e2eWErr != nil {
		t.Fatalf("INFRA: cannot start stack: %v", e2eWErr)
	}
	return e2eW
}

// wrapCase restricts a generated request to those the session, shim and banner features have to leave alone.
func wrapCase(c *ReqCase) {
	c.Wrapped = true
	var keep []vh.HeaderField
	for _, f := range c.Fields {
		if !strings.EqualFold(f.Name, "Cookie") {
			keep = append(keep, f)
		}
	}
	c.Fields = keep
	if strings.HasPrefix(c.Target, "/shim") {
		c.Target = "/x" + c.Target
	}
}

func runCase(t vh.TB, c *ReqCase) vh.Outcome {
	e := stack(t)
	if c.Wrapped {
		e = stackW(t)
	}
	nt, classes := classify(c)
	o := vh.Outcome{NonTrivial: nt, Classes: classes}
	tok := e.NewToken()
	wire, body := c.wire(tok)
	timeout := 30*time.Second + time.Duration(c.BodySize/(1<<20))*2*time.Second
	resp, err := vh.RawRoundTrip(e.Stack.ProxyAddr, wire, c.Method, timeout)
	got := e.Seen(tok)
	if herr := e.Stack.Health(); herr != nil {
		o.Err = fmt.Errorf("while serving a request: %v", herr)
		e.Restart()
		return o
	}
	if err != nil {
		if len(got) == 0 {
			o.Err = fmt.Errorf("request got no response and never reached the backend: %v", err)
		} else {
			o.Err = fmt.Errorf("backend answered but the client got no response: %v", err)
		}
		return o
	}
	if len(got) != 1 {
		o.Err = fmt.Errorf("backend saw the request %d times (client status %d)", len(got), resp.Status)
		return o
	}
	if resp.Status != 200 {
		o.Err = fmt.Errorf("client got status %d for a request the backend answered with 200", resp.Status)
		return o
	}
	g := got[0]
	wantLine := fmt.Sprintf("%s %s HTTP/1.1", c.Method, c.Target)
	if g.Line != wantLine {
		o.Err = fmt.Errorf("request line altered: sent %q, backend received %q", wantLine, g.Line)
		return o
	}
	if h := g.Values("Host"); len(h) != 1 || h[0] != c.Host {
		o.Err = fmt.Errorf("Host altered: sent %q, backend received %q", c.Host, h)
		return o
	}
	// every end-to-end field: same ordered values
	names := map[string]string{}
	var order []string
	for _, f := range c.Fields {
		ln := strings.ToLower(f.Name)
		if _, ok := names[ln]; !ok {
			names[ln] = f.Name
			order = append(order, ln)
		}
	}
	for _, ln := range order {
		want := vh.FieldValues(c.Fields, ln)
		have := g.Values(ln)
		if strings.Join(want, "\x00") != strings.Join(have, "\x00") || len(want) != len(have) {
			o.Err = fmt.Errorf("end-to-end field %q altered: sent values %q, backend received %q", names[ln], trunc(want), trunc(have))
			return o
		}
	}
	for _, hn := range hopNames {
		if v := g.Values(hn); len(v) > 0 {
			o.Err = fmt.Errorf("hop-by-hop field %s reached the backend with values %q", hn, v)
			return o
		}
	}
	if g.BodyErr != nil {
		o.Err = fmt.Errorf("backend could not read the body: %v", g.BodyErr)
		return o
	}
	if !bytes.Equal(g.Body, body) {
		o.Err = fmt.Errorf("body altered: sent %d bytes (hash %s), backend received %d bytes (hash %s), first difference at %d",
			len(body), vh.HashBytes(body), len(g.Body), vh.HashBytes(g.Body), firstDiff(body, g.Body))
		return o
	}
	return o
}

func trunc(vs []string) []string {
	out := make([]string, len(vs))
	for i, v := range vs {
		if len(v) > 80 {
			v = v[:40] + "…" + v[len(v)-20:]
		}
		out[i] = v
	}
	return out
}

func firstDiff(a, b []byte) int {
	n := len(a)
	if len(b) < n {
		n = len(b)
	}
	for i := 0; i < n; i++ {
		if a[i] != b[i] {
			return i
		}
	}
	return n
}

// Batch is one rapid case: usually a single request, sometimes several sent at the same time (the
// property is about every request, also when the agent is busy with others).
type Batch struct {
	Reqs []ReqCase `json:"reqs"`
}

func runBatch(t vh.TB, b *Batch) vh.Outcome {
	outs := make([]vh.Outcome, len(b.Reqs))
	var wg sync.WaitGroup
	for i := range b.Reqs {
		i := i
		wg.Add(1)
		go func() {
			defer wg.Done()
			outs[i] = runCase(t, &b.Reqs[i])
		}()
	}
	wg.Wait()
	var o vh.Outcome
	for _, x := range outs {
		o.NonTrivial = o.NonTrivial || x.NonTrivial
		o.Classes = append(o.Classes, x.Classes...)
		if x.Err != nil && o.Err == nil {
			o.Err = x.Err
		}
	}
	if len(b.Reqs) > 1 {
		o.Classes = append(o.Classes, "concurrent-batch")
	}
	if len(b.Reqs) > 0 && b.Reqs[0].Wrapped {
		o.Classes = append(o.Classes, "agent-with-sessions-shim-banner")
		return stackW(t).Stack.Discount(o)
	}
	return stack(t).Stack.Discount(o)
}

func TestPropRequestRoundTrip(t *testing.T) {
	defer func() {
		if e2e != nil {
			e2e.Close()
		}
		if e2eW != nil {
			e2eW.Close()
		}
	}()
	vh.Rapid(t, vh.Scale(800, 30000), func(rt *rapid.T) {
		var b Batch
		n := rapid.SampledFrom([]int{1, 1, 1, 1, 2, 4, 6}).Draw(rt, "batch")
		wrapped := rapid.IntRange(0, 3).Draw(rt, "wrappedAgent") == 0
		for i := 0; i < n; i++ {
			c := genCase(rt)
			if wrapped {
				wrapCase(&c)
			}
			b.Reqs = append(b.Reqs, c)
		}
		rec.Check(rt, &b, func() vh.Outcome { return runBatch(rt, &b) })
	})
}

func TestReplay(t *testing.T) {
	var b Batch
	ok, err := vh.ReplayCase("request-roundtrip", &b)
	if err != nil {
		t.Fatalf("INFRA: %v", err)
	}
	if !ok {
		t.Skip("no replay for this part")
	}
	defer func() {
		if e2e != nil {
			e2e.Close()
		}
	}()
	for i := 0; i < vh.ReplayRuns(); i++ {
		rec.Check(t, &b, func() vh.Outcome { return runBatch(t, &b) })
	}
}
