package c13

import "encoding/json"

func jsonDecode(b []byte, v any) error { return json.Unmarshal(b, v) }
