// Package c13 checks property C13: the websocket shim only ever connects to the configured backend.
package c13

import (
	"bytes"
	"encoding/json"
	"fmt"
	"io"
	"net/http"
	"net/url"
	"strconv"
	"strings"
	"sync"
	"testing"
	"time"

	"pgregory.net/rapid"
	"verif/harness/shimrig"
	"verif/harness/vh"
)

var (
	recO = vh.NewRecorder("C13", "open-confinement",
		"shim open request bodies from URL syntax classes {absolute ws/wss/http(s) with foreign hosts, scheme-relative, path-only, opaque "+
			"'scheme:rest', empty, userinfo, IPv6 literals, odd and huge ports, fragments, encoded slashes, backslashes, control bytes} and "+
			"arbitrary byte strings, with and without --rewrite-websocket-host, foreign Host headers on the open request and backend paths that answer the handshake with a redirect, against websockets.Proxy in-process; websocket.DefaultDialer.NetDialContext is replaced by a recorder that "+
			"refuses every address other than the backend's; oracle: every recorded dial address equals the configured backend host, and when "+
			"the handshake reaches the backend its path and query are those of the supplied URL; non-trivial = body parses as a URL naming a "+
			"host other than the backend or having an opaque part; distinct = SHA-256 of the body"+
			" Later additions: with --rewrite-websocket-host the handshake must carry the host the client addressed, never the host named in the body.")
	recP = vh.NewRecorder("C13", "pass-through",
		"requests for clean paths outside the shim prefix (outside, sharing a string prefix with it such as /shimx, nested such as "+
			"/a/shim/open) with generated methods, queries, headers and bodies; oracle: the wrapped handler receives identical method, URL, "+
			"headers and body and its response is returned unchanged; non-trivial = path shares a prefix with or contains the shim path")
)

func TestMain(m *testing.M) { vh.Main(m, recO, recP) }

var (
	rigOnce sync.Once
	rig     *shimrig.Rig // plain configuration
	rigRW   *shimrig.Rig // --rewrite-websocket-host
)

func getRig() *shimrig.Rig {
	rigOnce.Do(func() {
		rig = shimrig.New(shimrig.Options{RecordDials: true})
		rigRW = shimrig.New(shimrig.Options{RecordDials: true, RewriteHost: true})
	})
	return rig
}

var hostsForeign = []string{"evil.example", "evil.example:80", "127.0.0.1:1", "[::1]:9", "[fe80::1%25eth0]:80", "169.254.169.254", "metadata.google.internal",
	"localhost:22", "evil.example:99999", "evil.example:0", "user:pass@evil.example", "user@evil.example:8080", "xn--e1afmkfd.example", "EVIL.EXAMPLE"}

func genBody(t *rapid.T) string {
	path := rapid.SampledFrom([]string{"", "/", "/ws", "/ws/a%2Fb", "/a/../b", "/ws;v=1", "/%7Euser", "/ws/ü", "//double", "/a b"}).Draw(t, "path")
	query := rapid.SampledFrom([]string{"", "?", "?a=1&b=2", "?x=%20y", "?redirect=http://evil.example/"}).Draw(t, "query")
	frag := rapid.SampledFrom([]string{"", "", "#frag"}).Draw(t, "frag")
	host := rapid.SampledFrom(hostsForeign).Draw(t, "host")
	switch rapid.IntRange(0, 11).Draw(t, "class") {
	case 0:
		return rapid.SampledFrom([]string{"ws", "wss", "http", "https", "WS", "ftp", "file", "unix"}).Draw(t, "scheme") + "://" + host + path + query + frag
	case 1:
		return "//" + host + path + query
	case 2:
		return path + query + frag
	case 3: // opaque
		return rapid.SampledFrom([]string{"x:y", "mailto:a@b.example", "ws:evil.example/ws", "http:evil.example:80/x", "javascript:alert(1)", "data:text/plain,hi",
			"ws:/ws", "a:b:c", "urn:isbn:1", "ws:?q=1", "tel:+123"}).Draw(t, "opaque") + query
	case 4:
		return ""
	case 5:
		return "ws://" + host + "\\@" + getRig().Host + path
	case 6:
		return "ws://" + getRig().Host + "@" + host + path + query
	case 7:
		return "ws://" + host + rapid.SampledFrom([]string{"\x00", "\r\nHost: evil", "\t", " ", "%00", "\x7f"}).Draw(t, "ctl") + path
	case 8:
		return string(rapid.SliceOfN(rapid.Byte(), 0, 30).Draw(t, "bytes"))
	case 9:
		return "ws://" + getRig().Host + path + query + frag // the honest case
	case 10:
		return rapid.StringMatching(`[a-z]{1,5}:[!-~]{0,20}`).Draw(t, "schemeRest")
	default:
		return rapid.StringMatching(`[!-~]{0,30}`).Draw(t, "printable")
	}
}

// OpenCase is one shim open request.
type OpenCase struct {
	Body        string `json:"body"`
	RewriteHost bool   `json:"rewrite_websocket_host,omitempty"`
	Host        string `json:"request_host,omitempty"`
	// After: what happens to an opened session before the client closes it: "" nothing, "abort" the backend drops the TCP
	// connection, "1001"/"1011"/"1000" the backend closes with that code; the client then polls and posts data.
	// Whatever the agent does about it (report the session closed, or connect again), it may only ever dial the backend.
	After string `json:"after_open,omitempty"`
}

func runOpen(body string) vh.Outcome { return runOpenCase(&OpenCase{Body: body}) }

func runOpenCase(oc *OpenCase) vh.Outcome {
	r := getRig()
	if oc.RewriteHost {
		r = rigRW
	}
	body := oc.Body
	o := vh.Outcome{}
	if oc.RewriteHost {
		o.Classes = append(o.Classes, "rewrite-websocket-host")
	}
	if strings.Contains(body, "/redir-") {
		o.Classes = append(o.Classes, "backend-redirects-handshake")
	}
	u, perr := url.Parse(body)
	if perr == nil {
		if u.Opaque != "" {
			o.NonTrivial = true
			o.Classes = append(o.Classes, "opaque")
		}
		if u.Host != "" && u.Host != r.Host {
			o.NonTrivial = true
			o.Classes = append(o.Classes, "foreign-host")
		}
		if u.User != nil {
			o.Classes = append(o.Classes, "userinfo")
		}
		if u.Host == "" && u.Opaque == "" {
			o.Classes = append(o.Classes, "path-only")
		}
	} else {
		o.Classes = append(o.Classes, "unparsable")
	}
	r.TakeDials()
	r.ForgetConns()
	hdr := http.Header{"X-Websocket-Shim-Version": {"1"}}
	res := r.CallHost(oc.Host, "POST", r.ShimPath+"/open", []byte(body), hdr, 15*time.Second)
	dials := r.TakeDials()
	if res.Panic != nil || res.TimedOut {
		o.Err = fmt.Errorf("open with body %q: panic=%v unanswered=%v", body, res.Panic, res.TimedOut)
		return o
	}
	for _, d := range dials {
		if d != r.Host {
			o.Err = fmt.Errorf("open with body %q made the agent connect to %q; the only allowed peer is the configured backend %q", body, d, r.Host)
			return o
		}
	}
	if len(dials) > 0 {
		o.Classes = append(o.Classes, "dialed-backend")
	}
	if res.Status == 200 && strings.Contains(body, "/redir-") {
		// the backend itself redirected the handshake (to itself, else the dial check above has fired): nothing more to assert
		o.Classes = append(o.Classes, "redirect-followed-to-backend")
		var sm struct {
			ID string `json:"id"`
		}
		jsonUnmarshal(res.Body, &sm)
		r.Call("POST", r.ShimPath+"/close", shimrig.IDBody(sm.ID), nil, 5*time.Second)
	} else if res.Status == 200 {
		o.Classes = append(o.Classes, "session-opened")
		// the handshake reached the backend: which path and query did it carry?
		var sm struct {
			ID  string `json:"id"`
			Msg string `json:"msg"`
		}
		jsonUnmarshal(res.Body, &sm)
		bc := waitConn(r, u)
		if bc != nil && oc.After != "" {
			o.Classes = append(o.Classes, "backend-ends-the-session-"+oc.After)
			switch oc.After {
			case "abort":
				bc.Abort()
			case "1000":
				bc.Close()
			default:
				code, _ := strconv.Atoi(oc.After)
				bc.CloseWith(code)
			}
			time.Sleep(20 * time.Millisecond)
			for k := 0; k < 2; k++ {
				r.CallHost(oc.Host, "POST", r.ShimPath+"/poll", shimrig.IDBody(sm.ID), hdr, 25*time.Second)
				r.CallHost(oc.Host, "POST", r.ShimPath+"/data", shimrig.DataBody(sm.ID, []json.RawMessage{json.RawMessage(`"hello again"`)}), hdr, 10*time.Second)
			}
			for _, d := range r.TakeDials() {
				if d != r.Host {
					o.Err = fmt.Errorf("open with body %q (request host %q), then the backend ended the connection (%s) and the client polled: the agent connected to %q; the only allowed peer is the configured backend %q", body, oc.Host, oc.After, d, r.Host)
					return o
				}
			}
		}
		r.Call("POST", r.ShimPath+"/close", shimrig.IDBody(sm.ID), nil, 5*time.Second)
		if bc == nil {
			o.Err = fmt.Errorf("open with body %q answered 200 but no handshake with path %q reached the backend", body, u.Path)
			return o
		}
		if bc.Request.URL.RawQuery != u.RawQuery {
			o.Err = fmt.Errorf("open with body %q: handshake carried query %q, the supplied URL has %q", body, bc.Request.URL.RawQuery, u.RawQuery)
			return o
		}
		if !oc.RewriteHost && bc.Request.Host != r.Host {
			o.Err = fmt.Errorf("open with body %q: handshake went to Host %q", body, bc.Request.Host)
			return o
		}
		if oc.RewriteHost {
			// with --rewrite-websocket-host the Host field deliberately carries the host the client addressed its open
			// request to; the URL in the body still contributes only path and query (the peer is the backend either way)
			addressed := oc.Host
			if addressed == "" {
				addressed = "client.example"
			}
			if bc.Request.Host != addressed {
				o.Err = fmt.Errorf("open with body %q sent to host %q (--rewrite-websocket-host): the handshake carried Host %q; the supplied URL may contribute only path and query", body, addressed, bc.Request.Host)
				return o
			}
		}
	}
	return o
}

func waitConn(r *shimrig.Rig, u *url.URL) *shimrig.BackendConn {
	want := u.Path
	if !strings.HasPrefix(want, "/") {
		want = "/" + want // a relative path is resolved against the root of the backend
	}
	deadline := time.Now().Add(5 * time.Second)
	for time.Now().Before(deadline) {
		if bc := r.Conn(want); bc != nil {
			return bc
		}
		time.Sleep(time.Millisecond)
	}
	return nil
}

func jsonUnmarshal(b []byte, v any) { _ = jsonDecode(b, v) }

func TestPropOpenConfinement(t *testing.T) {
	vh.Rapid(t, vh.Scale(3000, 100000), func(rt *rapid.T) {
		oc := OpenCase{Body: genBody(rt), RewriteHost: rapid.Bool().Draw(rt, "rewriteHost"),
			Host: rapid.SampledFrom([]string{"", "evil.example", "evil.example:8080", "front.example"}).Draw(rt, "requestHost")}
		if rapid.IntRange(0, 7).Draw(rt, "after") == 0 {
			oc.After = rapid.SampledFrom([]string{"abort", "1001", "1011", "1000"}).Draw(rt, "afterKind")
		}
		if rapid.IntRange(0, 5).Draw(rt, "redir") == 0 {
			// a path on which the backend answers the handshake with a redirect
			oc.Body = "ws://whatever.example" + rapid.SampledFrom([]string{"/redir-host/a", "/redir-evil/a", "/redir-rel/a"}).Draw(rt, "redirPath")
		}
		recO.Check(rt, &oc, func() vh.Outcome { return runOpenCase(&oc) })
	})
}

func FuzzShimOpen(f *testing.F) {
	for _, s := range []string{"ws://evil.example/ws", "//evil.example/x", "/ws?a=1", "x:y", "mailto:a@b", "", "ws://u:p@evil.example/", "ws://[::1]:9/x", "ws://evil.example:99999/",
		"ws://evil.example/#f", "ws://evil.example\\@good/", "http:evil.example:80/x", "ws:/ws", "\x00\x01"} {
		f.Add([]byte(s))
	}
	f.Fuzz(func(t *testing.T, b []byte) {
		if o := runOpen(string(b)); o.Err != nil {
			t.Fatal(o.Err)
		}
	})
}

// ------------------------------------------------------------ pass-through

type PassCase struct {
	Method string           `json:"method"`
	Path   string           `json:"path"`
	Query  string           `json:"query"`
	Fields []vh.HeaderField `json:"fields"`
	Body   string           `json:"body"`
}

func genPass(t *rapid.T) PassCase {
	return PassCase{
		Method: rapid.SampledFrom([]string{"GET", "POST", "PUT", "DELETE", "OPTIONS"}).Draw(t, "method"),
		Path: rapid.SampledFrom([]string{"/", "/x", "/index.html", "/shimx", "/shimx/open", "/shi", "/a/shim/open", "/a/shim/data", "/Shim/open", "/shim.js",
			"/open", "/data", "/poll", "/close", "/x/" + "y%2Fz",
			// paths that are not in canonical form: still outside the shim prefix, still the backend's business
			"/a//b", "//x", "/a/./b", "/a/../b", "/files//report.txt", "/a/../shim/open", "/x/."}).Draw(t, "path"),
		Query: rapid.SampledFrom([]string{"", "a=1", "id=7&x=%20"}).Draw(t, "query"),
		Fields: rapid.SliceOfN(rapid.Custom(func(t *rapid.T) vh.HeaderField {
			return vh.HeaderField{Name: rapid.SampledFrom([]string{"X-A", "Cookie", "Authorization", "Accept", "X-Websocket-Shim-Version", "Content-Type"}).Draw(t, "hn"),
				Value: rapid.StringMatching(`[ -~]{0,16}`).Draw(t, "hv")}
		}), 0, 4).Draw(t, "fields"),
		Body: rapid.StringMatching(`[ -~]{0,40}`).Draw(t, "body"),
	}
}

func runPass(c *PassCase) vh.Outcome {
	r := getRig()
	o := vh.Outcome{NonTrivial: strings.Contains(strings.ToLower(c.Path), "shi")}
	if o.NonTrivial {
		o.Classes = append(o.Classes, "near-shim-prefix")
	}
	if strings.Contains(c.Path, "//") || strings.Contains(c.Path, "/.") {
		o.NonTrivial = true
		o.Classes = append(o.Classes, "non-canonical-path")
	}
	type got struct {
		method, uri, body string
		header            http.Header
	}
	var g *got
	r.Wrapped = func(w http.ResponseWriter, rq *http.Request) {
		b, _ := io.ReadAll(rq.Body)
		g = &got{rq.Method, rq.URL.RequestURI(), string(b), rq.Header.Clone()}
		w.Header().Set("X-From-Wrapped", "yes")
		w.WriteHeader(203)
		w.Write([]byte("wrapped-body"))
	}
	defer func() { r.Wrapped = nil }()
	uri := c.Path
	if c.Query != "" {
		uri += "?" + c.Query
	}
	hdr := http.Header{}
	for _, f := range c.Fields {
		hdr.Add(f.Name, f.Value)
	}
	r.TakeDials()
	res := r.Call(c.Method, uri, []byte(c.Body), hdr, 10*time.Second)
	if d := r.TakeDials(); len(d) > 0 {
		o.Err = fmt.Errorf("%s %s outside the shim prefix made the agent dial %v", c.Method, uri, d)
		return o
	}
	if res.Panic != nil || res.TimedOut {
		o.Err = fmt.Errorf("%s %s: panic=%v unanswered=%v", c.Method, uri, res.Panic, res.TimedOut)
		return o
	}
	if g == nil {
		o.Err = fmt.Errorf("%s %s (outside the shim prefix %s/) did not reach the wrapped handler; answered %d %q", c.Method, uri, r.ShimPath, res.Status, res.Body)
		return o
	}
	if g.method != c.Method || g.uri != uri || g.body != c.Body {
		o.Err = fmt.Errorf("request altered on the way to the wrapped handler: %s %s body %q -> %s %s body %q", c.Method, uri, c.Body, g.method, g.uri, g.body)
		return o
	}
	for k, v := range hdr {
		if strings.Join(g.header[k], "\x00") != strings.Join(v, "\x00") {
			o.Err = fmt.Errorf("header %s altered on the way to the wrapped handler: %q -> %q", k, v, g.header[k])
			return o
		}
	}
	for k := range g.header {
		if _, ok := hdr[k]; !ok {
			o.Err = fmt.Errorf("header %s was added on the way to the wrapped handler", k)
			return o
		}
	}
	if res.Status != 203 || !bytes.Equal(res.Body, []byte("wrapped-body")) {
		o.Err = fmt.Errorf("response of the wrapped handler altered: %d %q", res.Status, res.Body)
	}
	return o
}

func TestPropPassThrough(t *testing.T) {
	vh.Rapid(t, vh.Scale(2000, 40000), func(rt *rapid.T) {
		c := genPass(rt)
		recP.Check(rt, &c, func() vh.Outcome { return runPass(&c) })
	})
}

func TestReplay(t *testing.T) {
	var oc OpenCase
	if ok, err := vh.ReplayCase("open-confinement", &oc); err != nil {
		t.Fatalf("INFRA: %v", err)
	} else if ok {
		recO.Check(t, &oc, func() vh.Outcome { return runOpenCase(&oc) })
		return
	}
	var c PassCase
	if ok, _ := vh.ReplayCase("pass-through", &c); ok {
		recP.Check(t, &c, func() vh.Outcome { return runPass(&c) })
		return
	}
	t.Skip("no replay for this package")
}
