// Package aerig runs the App Engine proxy binary (three services) against the fake App Engine API;
// the harness plays the App Engine front end (identity headers, request ids, routing by service).
package aerig

import (
	"bytes"
	"fmt"
	"io"
	"net/http"
	"sync/atomic"
	"time"

	"verif/harness/fakeae"
	"verif/harness/vh"
)

type Rig struct {
	Fake  *fakeae.Fake
	Procs map[string]*vh.Proc
	Addr  map[string]string
	hc    *http.Client
	ctr   atomic.Int64
	nonce string
}

// Identity is what the App Engine front end established about the caller.
type Identity struct {
	Email      string // signed-in end user (X-AppEngine-User-Email)
	Admin      bool   // signed-in user is an app administrator
	OAuthEmail string // OAuth identity (agents, API callers)
	OAuthAdmin bool
	// OAuthNoEmail: a valid OAuth token whose user record carries an empty e-mail address
	OAuthNoEmail bool
}

func Start() (*Rig, error) {
	r := &Rig{Fake: fakeae.New(), Procs: map[string]*vh.Proc{}, Addr: map[string]string{}, nonce: fmt.Sprintf("%x", time.Now().UnixNano()&0xffffff)}
	host, port, err := r.Fake.Serve()
	if err != nil {
		return nil, err
	}
	for _, svc := range []string{"default", "agent", "api"} {
		var p *vh.Proc
		var addr string
		for attempt := 0; attempt < 5; attempt++ {
			lp := vh.FreePort()
			addr = fmt.Sprintf("127.0.0.1:%d", lp)
			p, err = vh.StartProc("app-"+svc, vh.Bin("app"), nil,
				"GAE_APPLICATION=s~verif", "GAE_SERVICE="+svc, "GAE_VERSION=v1", "GAE_INSTANCE=i1", "GAE_DEPLOYMENT_ID=1",
				fmt.Sprintf("PORT=%d", lp), "API_HOST="+host, "API_PORT="+port)
			if err != nil {
				r.Stop()
				return nil, err
			}
			if err = vh.WaitPort(addr, 15*time.Second); err == nil && p.Alive() {
				break
			}
			p.Stop()
		}
		if err != nil {
			r.Stop()
			return nil, fmt.Errorf("app service %s did not come up: %v", svc, err)
		}
		r.Procs[svc] = p
		r.Addr[svc] = addr
	}
	// (redirects are reported, not followed: the harness plays clients whose requests must be relayed as they are)
	r.hc = &http.Client{Transport: &http.Transport{MaxIdleConnsPerHost: 64},
		CheckRedirect: func(*http.Request, []*http.Request) error { return http.ErrUseLastResponse }}
	return r, nil
}

func (r *Rig) Stop() {
	for _, p := range r.Procs {
		p.Stop()
	}
	if r.Fake != nil {
		r.Fake.Close()
	}
}

// Health reports a dead process or race/fatal/panic output.
func (r *Rig) Health() error {
	for _, p := range r.Procs {
		if fl := p.Flags(); len(fl) > 0 {
			return fmt.Errorf("%s reported: %s", p.Name, fl[0])
		}
		if !p.Alive() {
			return fmt.Errorf("%s exited: %v\n%s", p.Name, p.ExitErr(), p.Tail(10))
		}
	}
	return nil
}

type Response struct {
	Status int
	Header http.Header
	Body   []byte
	Err    error
	ReqID  string
}

// NewRequestID returns a platform request id (unique per request, as App Engine guarantees).
func (r *Rig) NewRequestID() string {
	return fmt.Sprintf("req-%s-%d", r.nonce, r.ctr.Add(1))
}

// Do sends one request to a service the way the App Engine front end would deliver it.
func (r *Rig) Do(svc, method, uri string, hdr http.Header, body []byte, id Identity, timeout time.Duration) *Response {
	req, err := http.NewRequest(method, "http://"+r.Addr[svc]+uri, bytes.NewReader(body))
	if err != nil {
		return &Response{Err: err}
	}
	for k, v := range hdr {
		req.Header[k] = v
	}
	// identity headers come from the platform only, never from the simulated client
	for _, k := range []string{"X-Appengine-User-Email", "X-Appengine-User-Is-Admin", "X-Appengine-Api-Ticket", "X-Appengine-Request-Log-Id", "X-Appengine-User-Id"} {
		req.Header.Del(k)
	}
	if id.Email != "" {
		req.Header.Set("X-AppEngine-User-Email", id.Email)
		req.Header.Set("X-AppEngine-User-Id", "id-"+id.Email)
		req.Header.Set("X-AppEngine-Auth-Domain", "gmail.com")
	}
	if id.Admin {
		req.Header.Set("X-AppEngine-User-Is-Admin", "1")
	}
	ticket := "none"
	if id.OAuthEmail != "" {
		ticket = fakeae.Ticket(id.OAuthEmail, id.OAuthAdmin)
	} else if id.OAuthNoEmail {
		ticket = fakeae.TicketNoEmail
	}
	req.Header.Set("X-AppEngine-API-Ticket", ticket)
	rid := r.NewRequestID()
	req.Header.Set("X-Appengine-Request-Log-Id", rid)
	hc := *r.hc
	hc.Timeout = timeout
	resp, err := hc.Do(req)
	if err != nil {
		return &Response{Err: err, ReqID: rid}
	}
	defer resp.Body.Close()
	b, err := io.ReadAll(resp.Body)
	return &Response{Status: resp.StatusCode, Header: resp.Header, Body: b, Err: err, ReqID: rid}
}

// KeepAlive makes a backend live the way its agent does - by polling for pending requests - and reports whether the
// proxy has recorded the poll. A poll blocks for up to 30 s when nothing is pending, so it is sent with a short client
// time-out; on a busy machine a short time-out can expire before the request has reached the handler, hence the
// check of the stored last-seen time and the retries with longer time-outs.
func (r *Rig) KeepAlive(backendID, agentEmail string) bool {
	hdr := http.Header{"X-Inverting-Proxy-Backend-Id": {backendID}}
	for _, d := range []time.Duration{100 * time.Millisecond, 250 * time.Millisecond, 500 * time.Millisecond, time.Second, 2 * time.Second, 4 * time.Second} {
		r.Do("agent", "GET", "/agent/pending", hdr, nil, Identity{OAuthEmail: agentEmail}, d)
		if t, ok := r.Fake.EntityTime("backendTracker", backendID, "LastSeen"); ok && time.Since(t) < time.Minute {
			return true
		}
	}
	return false
}
