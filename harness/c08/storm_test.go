package c08

import (
	"fmt"
	"net"
	"net/http"
	"sync"
	"testing"
	"time"

	"pgregory.net/rapid"
	"verif/harness/vh"
)

// Third part: list calls that fail below HTTP (the connection is closed or reset without any response). Go's HTTP
// transport may silently repeat such a call once when it went out on a reused connection, so single gaps are not
// judged here; the number of calls arriving during a window of continuous failures is.
var recC = vh.NewRecorder("C08", "connection-failures",
	"the fake proxy answers 0-3 pending-list calls normally and then, for 2-3 s, ends every list call below HTTP (closes or "+
		"resets the connection) x 4 scenarios at a time on separate agents; oracle: with "+
		"delays of 1,2,4,... ms (x0.9 at least) at most 13 calls fit into 3 s, twice that if every one were repeated once by the "+
		"transport, so more than 60 arrivals in the window mean the agent is not backing off; non-trivial = every scenario "+
		"(the window always holds consecutive failures); distinct = SHA-256 of the canonical case")

type Storm struct {
	Healthy  int    `json:"healthy_calls_first"`
	Style    string `json:"style"` // close | reset (the request has been read; no response byte is sent)
	WindowMs int    `json:"window_ms"`
}

type CaseC struct {
	Storms []Storm `json:"storms"`
}

func runStorm(s *Storm) (err error, inconclusive string) {
	fp := vh.NewFakeProxy()
	defer fp.Close()
	var mu sync.Mutex
	served, dropped := 0, 0
	var stormStart time.Time
	fp.SetListHook(func(w http.ResponseWriter, r *http.Request) bool {
		mu.Lock()
		if served < s.Healthy {
			served++
			mu.Unlock()
			w.WriteHeader(200)
			w.Write([]byte("[]"))
			return true
		}
		if stormStart.IsZero() {
			stormStart = time.Now()
		}
		if time.Since(stormStart) < time.Duration(s.WindowMs)*time.Millisecond {
			dropped++
		}
		mu.Unlock()
		conn, _, herr := http.NewResponseController(w).Hijack()
		if herr != nil {
			panic(http.ErrAbortHandler)
		}
		if s.Style == "reset" {
			if tc, ok := conn.(*net.TCPConn); ok {
				tc.SetLinger(0)
			}
		}
		conn.Close()
		return true
	})
	meta := vh.NewFakeMeta()
	defer meta.Close()
	backend := vh.NewRawBackend(nil)
	defer backend.Close()
	agent, aerr := vh.StartAgent(meta, fp.URL, backend.Addr, nil)
	if aerr != nil {
		return nil, "cannot start agent: " + aerr.Error()
	}
	defer agent.Stop()
	deadline := time.Now().Add(30 * time.Second)
	for {
		mu.Lock()
		st := stormStart
		mu.Unlock()
		if !st.IsZero() && time.Since(st) > time.Duration(s.WindowMs)*time.Millisecond {
			break
		}
		if !agent.Alive() {
			return fmt.Errorf("agent exited while list calls were failing below HTTP: %s", agent.Tail(8)), ""
		}
		if time.Now().After(deadline) {
			return nil, "the agent never reached the failing phase"
		}
		time.Sleep(20 * time.Millisecond)
	}
	mu.Lock()
	n := dropped
	mu.Unlock()
	if fl := agent.Flags(); len(fl) > 0 {
		return fmt.Errorf("agent reported: %s", fl[0]), ""
	}
	if n > 60 {
		return fmt.Errorf("%d pending-list calls arrived within %d ms while every one of them was ended without a response (%s): the agent is not backing off (at most 13 calls fit the delays 1,2,4,... ms; 26 if each were repeated once by the HTTP transport)", n, s.WindowMs, s.Style), ""
	}
	return nil, ""
}

func runCaseC(c *CaseC) vh.Outcome {
	o := vh.Outcome{NonTrivial: true}
	errs := make([]error, len(c.Storms))
	incs := make([]string, len(c.Storms))
	var wg sync.WaitGroup
	for i := range c.Storms {
		i := i
		wg.Add(1)
		go func() {
			defer wg.Done()
			errs[i], incs[i] = runStorm(&c.Storms[i])
		}()
	}
	wg.Wait()
	for i, s := range c.Storms {
		o.Classes = append(o.Classes, "style-"+s.Style)
		if errs[i] != nil && o.Err == nil {
			o.Err = errs[i]
		}
		if incs[i] != "" && o.Inconclusive == "" {
			o.Inconclusive = incs[i]
		}
	}
	if o.Err != nil {
		o.Inconclusive = ""
	}
	return o
}

func TestPropConnectionFailures(t *testing.T) {
	vh.Rapid(t, vh.Scale(1, 12), func(rt *rapid.T) {
		var c CaseC
		for i := 0; i < 4; i++ {
			c.Storms = append(c.Storms, Storm{
				Healthy:  rapid.IntRange(0, 3).Draw(rt, "healthy"),
				Style:    rapid.SampledFrom([]string{"close", "reset"}).Draw(rt, "style"),
				WindowMs: rapid.SampledFrom([]int{2000, 3000}).Draw(rt, "window"),
			})
		}
		recC.Check(rt, &c, func() vh.Outcome { return runCaseC(&c) })
	})
}

func TestReplayConnectionFailures(t *testing.T) {
	var c CaseC
	if ok, _ := vh.ReplayCase("connection-failures", &c); !ok {
		t.Skip("no replay for this part")
	}
	recC.Check(t, &c, func() vh.Outcome { return runCaseC(&c) })
}
