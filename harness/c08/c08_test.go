// Package c08 checks property C08: polling backs off with bounded, strictly positive delays.
package c08

import (
	"fmt"
	"math/big"
	"net/http"
	"sync"
	"testing"
	"time"

	"github.com/google/inverting-proxy/agent/utils"
	"pgregory.net/rapid"
	"verif/harness/vh"
)

var (
	recA = vh.NewRecorder("C08", "backoff-function",
		"retry counts drawn from {0..70} u {2^k-1,2^k,2^k+1 : k<=64} u the full unsigned range, 8 calls each of "+
			"utils.ExponentialBackoffDuration; oracle = closed form d>0 and 0.9*E(n) <= d <= 1.1*E(n), E(n)=min(2^n ms, 3 s) in big-integer "+
			"arithmetic (1 us rounding tolerance); non-trivial = n >= 11 (at or beyond the cap); distinct = distinct n")
	recB = vh.NewRecorder("C08", "agent-polling",
		"fail/succeed patterns of 6-25 pending-list calls (failure kinds: 5xx, 404, garbage JSON, body truncated mid-way, error statuses with an empty body, 429/503 with a Retry-After header of 0, 1, 2 seconds or a date in the past) served by a fake proxy to "+
			"the real agent binary, 4 patterns concurrently on separate agents; oracle on fake-proxy timestamps: the gap after the j-th "+
			"consecutive failure is >= 0.9*E(j-1) (lower bounds only), and after a run of k>=9 failures, one success and one failure the "+
			"gap is < 0.9*E(k) (counter was reset); non-trivial = pattern with >=3 consecutive failures followed by a success")
)

func TestMain(m *testing.M) { vh.Main(m, recA, recB, recC) }

func expected(n uint64) *big.Int {
	cap3s := big.NewInt(int64(3 * time.Second))
	if n >= 40 {
		return cap3s
	}
	e := new(big.Int).Lsh(big.NewInt(int64(time.Millisecond)), uint(n))
	if e.Cmp(cap3s) > 0 {
		return cap3s
	}
	return e
}

func checkBackoff(n uint64) error {
	if uint64(uint(n)) != n {
		return nil
	}
	e := expected(n)
	lo := new(big.Int).Div(new(big.Int).Mul(e, big.NewInt(9)), big.NewInt(10))
	hi := new(big.Int).Div(new(big.Int).Mul(e, big.NewInt(11)), big.NewInt(10))
	lo.Sub(lo, big.NewInt(1000))
	hi.Add(hi, big.NewInt(1000))
	for i := 0; i < 8; i++ {
		d := utils.ExponentialBackoffDuration(uint(n))
		if d <= 0 {
			return fmt.Errorf("ExponentialBackoffDuration(%d) = %v, not strictly positive", n, d)
		}
		bd := big.NewInt(int64(d))
		if bd.Cmp(lo) < 0 || bd.Cmp(hi) > 0 {
			return fmt.Errorf("ExponentialBackoffDuration(%d) = %v, outside [0.9, 1.1] x %v", n, d, time.Duration(e.Int64()))
		}
	}
	return nil
}

func genN(t *rapid.T) uint64 {
	switch rapid.IntRange(0, 3).Draw(t, "nkind") {
	case 0:
		return uint64(rapid.IntRange(0, 70).Draw(t, "small"))
	case 1:
		k := rapid.IntRange(1, 64).Draw(t, "k")
		var p uint64
		if k == 64 {
			p = 0
		} else {
			p = uint64(1) << uint(k)
		}
		return p + uint64(rapid.IntRange(-1, 1).Draw(t, "off"))
	case 2:
		return rapid.SampledFrom([]uint64{11, 12, 62, 63, 64, 65, 1 << 32, 1<<32 - 1, 1<<63 - 1, 1 << 63, ^uint64(0), ^uint64(0) - 1}).Draw(t, "named")
	default:
		return rapid.Uint64().Draw(t, "any")
	}
}

func TestPropBackoffFunction(t *testing.T) {
	vh.Rapid(t, vh.Scale(20000, 1000000), func(rt *rapid.T) {
		n := genN(rt)
		recA.Check(rt, n, func() vh.Outcome {
			o := vh.Outcome{NonTrivial: n >= 11}
			switch {
			case n < 11:
				o.Classes = []string{"n<11"}
			case n < 64:
				o.Classes = []string{"11<=n<64"}
			case n < 1<<32:
				o.Classes = []string{"64<=n<2^32"}
			default:
				o.Classes = []string{"n>=2^32"}
			}
			o.Err = checkBackoff(n)
			return o
		})
	})
}

func FuzzBackoff(f *testing.F) {
	for _, n := range []uint64{0, 1, 10, 11, 12, 62, 63, 64, 1 << 32, ^uint64(0)} {
		f.Add(n)
	}
	f.Fuzz(func(t *testing.T, n uint64) {
		if err := checkBackoff(n); err != nil {
			t.Fatal(err)
		}
	})
}

// ------------------------------------------------------------ agent part

type Step struct {
	Fail bool   `json:"fail"`
	Kind string `json:"kind,omitempty"` // 5xx | garbage | drop
}

type CaseB struct {
	Patterns [][]Step `json:"patterns"`
}

func genPattern(t *rapid.T) []Step {
	var p []Step
	kinds := []string{"5xx", "404", "garbage", "truncated", "503-empty", "401-empty", "500-empty-chunked",
		"503-retry-after-0", "429-retry-after-past", "503-retry-after-2", "429-retry-after-1"}
	budget := 4500 // ms of expected sleeping
	addRun := func(k int) {
		for j := 0; j < k; j++ {
			e := 1 << uint(j)
			if e > 3000 {
				e = 3000
			}
			if budget-e < 0 {
				return
			}
			budget -= e
			p = append(p, Step{Fail: true, Kind: rapid.SampledFrom(kinds).Draw(t, "kind")})
		}
	}
	if rapid.Bool().Draw(t, "resetProbe") {
		// a long run, one success, one failure: the reset probe
		addRun(rapid.IntRange(9, 11).Draw(t, "longRun"))
		p = append(p, Step{}, Step{Fail: true, Kind: rapid.SampledFrom(kinds).Draw(t, "kind")}, Step{})
	}
	nruns := rapid.IntRange(1, 4).Draw(t, "nruns")
	for i := 0; i < nruns; i++ {
		addRun(rapid.IntRange(1, 9).Draw(t, "run"))
		ns := rapid.IntRange(1, 3).Draw(t, "succ")
		for j := 0; j < ns; j++ {
			p = append(p, Step{})
		}
	}
	if len(p) > 25 {
		p = p[:25]
	}
	return p
}

func expMs(j int) time.Duration {
	if j >= 12 {
		return 3 * time.Second
	}
	return time.Duration(1<<uint(j)) * time.Millisecond
}

type obs struct {
	start, end time.Time
	fail       bool
}

func runPattern(p []Step) (nontrivial bool, err error, inconclusive string) {
	fp := vh.NewFakeProxy()
	defer fp.Close()
	var mu sync.Mutex
	var seen []obs
	idx := 0
	fp.SetListHook(func(w http.ResponseWriter, r *http.Request) bool {
		mu.Lock()
		i := idx
		idx++
		mu.Unlock()
		o := obs{start: time.Now()}
		st := Step{}
		if i < len(p) {
			st = p[i]
		} else {
			time.Sleep(50 * time.Millisecond)
		}
		o.fail = st.Fail
		switch {
		case !st.Fail:
			w.WriteHeader(200)
			w.Write([]byte("[]"))
		case st.Kind == "5xx":
			w.WriteHeader(503)
			w.Write([]byte("unavailable"))
		case st.Kind == "garbage":
			w.WriteHeader(200)
			w.Write([]byte("{not json"))
		case st.Kind == "503-empty":
			w.Header().Set("Content-Length", "0")
			w.WriteHeader(503)
		case st.Kind == "401-empty":
			w.Header().Set("Content-Length", "0")
			w.WriteHeader(401)
		case st.Kind == "500-empty-chunked":
			w.WriteHeader(500)
			if f, ok := w.(http.Flusher); ok {
				f.Flush()
			}
		case st.Kind == "503-retry-after-0":
			// what a front end or load balancer in front of the proxy may answer; the agent's delays are its own
			w.Header().Set("Retry-After", "0")
			w.WriteHeader(503)
			w.Write([]byte("slow down"))
		case st.Kind == "429-retry-after-past":
			w.Header().Set("Retry-After", "Wed, 21 Oct 2015 07:28:00 GMT")
			w.WriteHeader(429)
			w.Write([]byte("slow down"))
		case st.Kind == "503-retry-after-2":
			w.Header().Set("Retry-After", "2")
			w.WriteHeader(503)
		case st.Kind == "429-retry-after-1":
			w.Header().Set("Retry-After", "1")
			w.WriteHeader(429)
			w.Write([]byte("slow down"))
		case st.Kind == "404":
			w.WriteHeader(404)
			w.Write([]byte("not found"))
		default:
			// truncated body: headers arrive, the body breaks off (not retried by the HTTP transport,
			// unlike a connection dropped before any response byte)
			w.Header().Set("Content-Length", "100")
			w.WriteHeader(200)
			w.Write([]byte("[\"abc"))
			if f, ok := w.(http.Flusher); ok {
				f.Flush()
			}
			panic(http.ErrAbortHandler)
		}
		o.end = time.Now()
		if i < len(p) {
			mu.Lock()
			seen = append(seen, o)
			mu.Unlock()
		}
		return true
	})
	meta := vh.NewFakeMeta()
	defer meta.Close()
	backend := vh.NewRawBackend(nil)
	defer backend.Close()
	agent, aerr := vh.StartAgent(meta, fp.URL, backend.Addr, nil)
	if aerr != nil {
		return false, nil, "cannot start agent: " + aerr.Error()
	}
	defer agent.Stop()
	deadline := time.Now().Add(40 * time.Second)
	for {
		mu.Lock()
		n := idx
		mu.Unlock()
		if n > len(p) {
			break
		}
		if !agent.Alive() {
			return false, fmt.Errorf("agent exited while the proxy was failing list calls: %s", agent.Tail(8)), ""
		}
		if time.Now().After(deadline) {
			return false, nil, fmt.Sprintf("agent made only %d of %d list calls in 40s", n, len(p))
		}
		time.Sleep(5 * time.Millisecond)
	}
	if fl := agent.Flags(); len(fl) > 0 {
		return false, fmt.Errorf("agent reported: %s", fl[0]), ""
	}
	// calls of a "drop" step have no end time recorded by the hook (it panics): use the start of the handler
	mu.Lock()
	defer mu.Unlock()
	// rebuild the observation list in call order including dropped calls
	calls := fp.ListCalls()
	if len(calls) < len(p) {
		return false, nil, "fake proxy recorded fewer calls than served"
	}
	consec := 0
	for i := 0; i+1 < len(p) && i+1 < len(calls); i++ {
		if !p[i].Fail {
			if consec >= 3 {
				nontrivial = true
			}
			consec = 0
			continue
		}
		consec++
		gap := calls[i+1].Start.Sub(calls[i].End)
		lower := time.Duration(float64(expMs(consec-1)) * 0.9)
		if gap < lower-500*time.Microsecond {
			return nontrivial, fmt.Errorf("after %d consecutive failing list calls the agent waited only %v before the next call (at least %v required); pattern %v", consec, gap, lower, brief(p)), ""
		}
		// the delays start at about 1 ms and double: after at most five failures in a row (<= 16 ms +10%) a whole second is
		// not "about" that, whatever the machine load (confirmed on a second run like the reset probe)
		if consec <= 5 && gap >= time.Second {
			return nontrivial, fmt.Errorf("RESET: after %d consecutive failing list calls (the last one of kind %q) the agent waited %v before the next call; about %v expected; pattern %v", consec, p[i].Kind, gap, expMs(consec-1), brief(p)), ""
		}
		// reset probe: this failure directly follows a success that followed a run of k>=9 failures
		if consec == 1 && i >= 2 && !p[i-1].Fail {
			k := 0
			for j := i - 2; j >= 0 && p[j].Fail; j-- {
				k++
			}
			if k >= 9 {
				upper := time.Duration(float64(expMs(k)) * 0.9)
				if gap >= upper {
					return nontrivial, fmt.Errorf("RESET: after %d failures, one success and one failure the agent waited %v (>= %v): the delay did not return to the shortest one", k, gap, upper), ""
				}
			}
		}
	}
	return nontrivial, nil, ""
}

func brief(p []Step) string {
	s := ""
	for _, st := range p {
		if st.Fail {
			s += "F"
		} else {
			s += "."
		}
	}
	return s
}

func runCaseB(c *CaseB) vh.Outcome {
	o := vh.Outcome{}
	type res struct {
		nt  bool
		err error
		inc string
	}
	results := make([]res, len(c.Patterns))
	var wg sync.WaitGroup
	for i := range c.Patterns {
		i := i
		wg.Add(1)
		go func() {
			defer wg.Done()
			nt, err, inc := runPattern(c.Patterns[i])
			if err != nil && len(err.Error()) > 6 && err.Error()[:6] == "RESET:" {
				// confirm on a second run: machine load must not blur the two
				_, err2, _ := runPattern(c.Patterns[i])
				if err2 == nil {
					err, inc = nil, "reset probe failed once only: "+err.Error()
				}
			}
			results[i] = res{nt, err, inc}
		}()
	}
	wg.Wait()
	for i, r := range results {
		if r.nt {
			o.NonTrivial = true
			o.Classes = append(o.Classes, "run>=3-then-success")
		}
		for j := 0; j+11 < len(c.Patterns[i]); j++ {
			if c.Patterns[i][j].Fail && j == 0 {
				// counted below
			}
		}
		if r.inc != "" {
			o.Inconclusive = r.inc
		}
		if r.err != nil && o.Err == nil {
			o.Err = r.err
		}
	}
	for _, p := range c.Patterns {
		run := 0
		for i, st := range p {
			if st.Fail {
				run++
				continue
			}
			if run >= 9 && i+1 < len(p) && p[i+1].Fail {
				o.Classes = append(o.Classes, "reset-probe")
			}
			run = 0
		}
	}
	return o
}

func TestPropAgentPolling(t *testing.T) {
	vh.Rapid(t, vh.Scale(5, 60), func(rt *rapid.T) {
		var c CaseB
		for i := 0; i < 4; i++ {
			c.Patterns = append(c.Patterns, genPattern(rt))
		}
		recB.Check(rt, &c, func() vh.Outcome { return runCaseB(&c) })
	})
}

func TestReplay(t *testing.T) {
	var n uint64
	if ok, err := vh.ReplayCase("backoff-function", &n); err != nil {
		t.Fatalf("INFRA: %v", err)
	} else if ok {
		recA.Check(t, n, func() vh.Outcome { return vh.Outcome{Err: checkBackoff(n)} })
		return
	}
	var c CaseB
	if ok, _ := vh.ReplayCase("agent-polling", &c); ok {
		recB.Check(t, &c, func() vh.Outcome { return runCaseB(&c) })
		return
	}
	t.Skip("no replay for this package")
}
