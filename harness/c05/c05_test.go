// Package c05 checks property C05: responses stream through the agent chunk by chunk.
package c05

import (
	"bufio"
	"fmt"
	"io"
	"net"
	"net/http"
	"sync"
	"sync/atomic"
	"testing"
	"time"

	"pgregory.net/rapid"
	"verif/harness/vh"
)

var rec = vh.NewRecorder("C05", "lockstep-streaming",
	"backend responses of 1-50 chunks with sizes from {1,2,100,4095,4096,4097,32KiB,1MiB,4MiB} and pauses 0-50ms, chunked or "+
		"Content-Length framed, produced in lock-step: the scripted backend emits chunk i+1 only after the fake proxy has observed every "+
		"byte of chunk i in the agent's upload (decoded incrementally); a chunk not observed within 5s while the producer is idle, which "+
		"turns up after the producer is released, is a confirmed violation; the agent runs in one of five configurations (default, session tracking, shim, banner, all); non-trivial = at least 2 chunks; distinct = SHA-256 of the case"+
		" One case in six follows a small response whose upload the proxy answered with 411, 501, 413, 400, 404, 429, 308 or a 5xx right after the headers. One case in eight produces 2-48 such responses at the same time (each backend handler waits after its first chunk until the proxy has seen the first chunk of all of them)."+
		" Later additions: five agent configurations (default, session tracking, websocket shim, banner, all) and text/html as well as octet-stream bodies.")

func TestMain(m *testing.M) { vh.Main(m, rec) }

type Case struct {
	Chunks   []int  `json:"chunks"`
	PausesMs []int  `json:"pauses_ms"`
	Framing  string `json:"framing"`        // chunked | cl
	Config   string `json:"agent_config"`   // default | sessions | shim | banner | all
	HTML     bool   `json:"html,omitempty"` // the response is an HTML document (no <head> in it)
	// Concurrent > 1: that many responses of this shape are produced at the same time; every backend handler waits
	// after its first chunk until the proxy has observed the first chunk of all of them (responses that overlap in time)
	Concurrent int `json:"concurrent,omitempty"`
	// Prelude > 0: before this response, the upload of a small other response is answered by the proxy (or something
	// in front of it) with this status, straight after the request headers; the agent lives on across cases
	Prelude int `json:"prelude_upload_status,omitempty"`
}

// barrier: all n streams have had their first chunk observed by the proxy (or one of them has given up waiting).
type barrier struct {
	mu      sync.Mutex
	n, here int
	open    chan struct{}
}

func (b *barrier) arrive(giveUp bool) {
	b.mu.Lock()
	b.here++
	if b.here == b.n || giveUp {
		select {
		case <-b.open:
		default:
			close(b.open)
		}
	}
	b.mu.Unlock()
	select {
	case <-b.open:
	case <-time.After(3 * stallBound):
	}
}

func genCase(t *rapid.T) Case {
	var c Case
	n := rapid.IntRange(1, 50).Draw(t, "nchunks")
	if rapid.IntRange(0, 2).Draw(t, "few") == 0 {
		n = rapid.IntRange(2, 6).Draw(t, "nfew")
	}
	total := 0
	limit := vh.Scale(6<<20, 24<<20)
	for i := 0; i < n; i++ {
		s := rapid.SampledFrom([]int{1, 1, 2, 100, 100, 4095, 4096, 4097, 32768, 32768, 1 << 20, 4 << 20}).Draw(t, "size")
		if total+s > limit {
			s = 100
		}
		total += s
		c.Chunks = append(c.Chunks, s)
	}
	c.PausesMs = rapid.SliceOfN(rapid.SampledFrom([]int{0, 0, 0, 1, 5, 50}), 1, 4).Draw(t, "pauses")
	c.Framing = rapid.SampledFrom([]string{"chunked", "chunked", "cl"}).Draw(t, "framing")
	c.Config = rapid.SampledFrom([]string{"default", "default", "sessions", "shim", "banner", "all"}).Draw(t, "config")
	c.HTML = rapid.IntRange(0, 2).Draw(t, "html") == 0
	if rapid.IntRange(0, 5).Draw(t, "prelude") == 0 {
		c.Prelude = rapid.SampledFrom([]int{411, 501, 413, 400, 404, 503, 429, 500, 502, 308}).Draw(t, "preludeStatus")
	}
	if rapid.IntRange(0, 7).Draw(t, "conc") == 0 {
		c.Concurrent = rapid.SampledFrom([]int{2, 8, 17, 20, 33, 48}).Draw(t, "concurrent")
		if len(c.Chunks) > 4 {
			c.Chunks = c.Chunks[:4]
		}
		if len(c.Chunks) < 2 {
			c.Chunks = append(c.Chunks, 100)
		}
		for i := range c.Chunks {
			if c.Chunks[i] > 32768 {
				c.Chunks[i] = 32768
			}
		}
	}
	return c
}

// monitor incrementally decodes one upload and counts response payload bytes seen by the proxy.
type monitor struct {
	pw      *io.PipeWriter
	seen    atomic.Int64
	mu      sync.Mutex
	cond    *sync.Cond
	done    chan struct{}
	parseOK bool
}

func newMonitor() *monitor {
	pr, pw := io.Pipe()
	m := &monitor{pw: pw, done: make(chan struct{})}
	m.cond = sync.NewCond(&m.mu)
	go func() {
		defer close(m.done)
		defer io.Copy(io.Discard, pr)
		resp, err := http.ReadResponse(bufio.NewReaderSize(pr, 64<<10), &http.Request{Method: "GET"})
		if err != nil {
			return
		}
		buf := make([]byte, 64<<10)
		for {
			n, err := resp.Body.Read(buf)
			if n > 0 {
				m.seen.Add(int64(n))
				m.mu.Lock()
				m.cond.Broadcast()
				m.mu.Unlock()
			}
			if err != nil {
				m.parseOK = err == io.EOF
				return
			}
		}
	}()
	return m
}

// waitFor waits until at least n payload bytes were seen.
func (m *monitor) waitFor(n int64, d time.Duration) bool {
	deadline := time.Now().Add(d)
	for m.seen.Load() < n {
		if time.Now().After(deadline) {
			return false
		}
		time.Sleep(200 * time.Microsecond)
	}
	return true
}

type rig struct {
	fp      *vh.FakeProxy
	meta    *vh.FakeMeta
	agent   *vh.Proc
	backend *vh.RawBackend
	mu      sync.Mutex
	mons    map[string]*monitor // by request ID
	upFault map[string]int      // by request ID: status the proxy answers the first upload attempt with
	scripts map[string]func(net.Conn)
	ctr     int
}

var (
	rigMu sync.Mutex
	rigs  = map[string]*rig{}
)

func agentArgs(config string) []string {
	var a []string
	if config == "sessions" || config == "all" {
		a = append(a, "--session-cookie-name=verif-session", "--disable-ssl-for-test")
	}
	if config == "shim" || config == "all" {
		a = append(a, "--shim-websockets", "--shim-path=shim")
	}
	if config == "banner" || config == "all" {
		a = append(a, "--inject-banner=<b>banner</b>")
	}
	return a
}

func getRig(t vh.TB, config string) *rig {
	rigMu.Lock()
	defer rigMu.Unlock()
	if config == "" {
		config = "default"
	}
	if r := rigs[config]; r != nil {
		return r
	}
	r := &rig{mons: map[string]*monitor{}, scripts: map[string]func(net.Conn){}, upFault: map[string]int{}}
	r.backend = vh.NewRawBackend(func(rq *vh.RawRequest, c net.Conn) bool {
		tok := ""
		if v := rq.Values(vh.TokenHeader); len(v) > 0 {
			tok = v[0]
		}
		r.mu.Lock()
		s := r.scripts[tok]
		r.mu.Unlock()
		if s == nil {
			c.Write([]byte("HTTP/1.1 200 OK\r\nContent-Length: 0\r\n\r\n"))
			return true
		}
		s(c)
		return true
	})
	r.fp = vh.NewFakeProxy()
	r.fp.IdleReply = 50 * time.Millisecond
	r.fp.SetUploadHook(func(q *vh.FPRequest, w http.ResponseWriter, rq *http.Request) bool {
		r.mu.Lock()
		st := r.upFault[q.ID]
		delete(r.upFault, q.ID)
		r.mu.Unlock()
		if st == 0 {
			return false
		}
		w.Header().Set("Connection", "close")
		w.WriteHeader(st)
		return true
	})
	r.fp.SetOnUploadBytes(func(q *vh.FPRequest, b []byte) {
		r.mu.Lock()
		m := r.mons[q.ID]
		r.mu.Unlock()
		if m != nil {
			m.pw.Write(b)
		}
	})
	r.meta = vh.NewFakeMeta()
	var err error
	r.agent, err = vh.StartAgent(r.meta, r.fp.URL, r.backend.Addr, agentArgs(config))
	if err != nil {
		t.Fatalf("INFRA: cannot start agent: %v", err)
	}
	q := r.fp.Submit("warmup", "", "GET", []byte("GET /warmup HTTP/1.1\r\nHost: x\r\n\r\n"))
	if q.Wait(30*time.Second) == nil {
		t.Fatalf("INFRA: agent did not come up: %s", r.agent.Tail(10))
	}
	rigs[config] = r
	return r
}

func closeRig() {
	rigMu.Lock()
	defer rigMu.Unlock()
	for k, r := range rigs {
		r.agent.Stop()
		r.fp.Close()
		r.meta.Close()
		r.backend.Close()
		delete(rigs, k)
	}
}

const stallBound = 5 * time.Second

func runCase(t vh.TB, c *Case) vh.Outcome {
	if c.Concurrent <= 1 {
		return runOne(t, c, nil)
	}
	getRig(t, c.Config)
	bar := &barrier{n: c.Concurrent, open: make(chan struct{})}
	outs := make([]vh.Outcome, c.Concurrent)
	var wg sync.WaitGroup
	for i := range outs {
		i := i
		wg.Add(1)
		go func() {
			defer wg.Done()
			outs[i] = runOne(t, c, bar)
		}()
	}
	wg.Wait()
	o := outs[0]
	o.Classes = append(o.Classes, fmt.Sprintf("concurrent-responses-%d", c.Concurrent))
	for _, x := range outs {
		if x.Err != nil {
			o.Err = fmt.Errorf("%d responses produced at the same time: %v", c.Concurrent, x.Err)
			o.TimedOut = x.TimedOut
			break
		}
		if x.Inconclusive != "" {
			o.Inconclusive = x.Inconclusive
		}
	}
	return o
}

func runOne(t vh.TB, c *Case, bar *barrier) vh.Outcome {
	r := getRig(t, c.Config)
	o := vh.Outcome{NonTrivial: len(c.Chunks) >= 2}
	if c.Prelude > 0 && bar == nil {
		o.Classes = append(o.Classes, fmt.Sprintf("after-an-upload-answered-%d", c.Prelude))
		r.mu.Lock()
		r.ctr++
		pid := fmt.Sprintf("c05-prelude-%d", r.ctr)
		r.upFault[pid] = c.Prelude
		r.mu.Unlock()
		pq := r.fp.Submit(pid, "", "GET", []byte("GET /prelude HTTP/1.1\r\nHost: c05.example\r\n\r\n"))
		pq.Wait(1 * time.Second) // whether and when that response arrives is not this property's subject
		time.Sleep(50 * time.Millisecond)
		r.fp.Forget(pid)
	}
	o.Classes = append(o.Classes, "agent-config-"+c.Config)
	if c.HTML {
		o.Classes = append(o.Classes, "html-response")
	}
	total := 0
	maxc := 0
	for _, s := range c.Chunks {
		total += s
		if s > maxc {
			maxc = s
		}
	}
	if len(c.Chunks) >= 2 {
		o.Classes = append(o.Classes, "chunks>=2")
	}
	if len(c.Chunks) >= 10 {
		o.Classes = append(o.Classes, "chunks>=10")
	}
	if c.Chunks[0] == 1 {
		o.Classes = append(o.Classes, "1-byte-first-chunk")
	}
	if maxc >= 1<<20 {
		o.Classes = append(o.Classes, "chunk>=1MiB")
	}
	if total > 32768 {
		o.Classes = append(o.Classes, "total>32KiB")
	}
	o.Classes = append(o.Classes, "framing-"+c.Framing)

	r.mu.Lock()
	r.ctr++
	id := fmt.Sprintf("c05-%d", r.ctr)
	tok := id
	mon := newMonitor()
	r.mons[id] = mon
	stalledAt := -1
	var stallSeen int64
	finished := make(chan struct{})
	r.scripts[tok] = func(conn net.Conn) {
		defer close(finished)
		ctype := "application/octet-stream"
		if c.HTML {
			ctype = "text/html; charset=utf-8"
		}
		if c.Framing == "cl" {
			fmt.Fprintf(conn, "HTTP/1.1 200 OK\r\nContent-Type: %s\r\nContent-Length: %d\r\n\r\n", ctype, total)
		} else {
			fmt.Fprintf(conn, "HTTP/1.1 200 OK\r\nContent-Type: %s\r\nTransfer-Encoding: chunked\r\n\r\n", ctype)
		}
		var cum int64
		for i, s := range c.Chunks {
			data := vh.Payload(fmt.Sprint("c05-", i), s)
			if c.Framing == "cl" {
				conn.Write(data)
			} else {
				fmt.Fprintf(conn, "%x\r\n", s)
				conn.Write(data)
				conn.Write([]byte("\r\n"))
			}
			cum += int64(s)
			// lock-step: do not continue before the proxy has observed this chunk
			if stalledAt < 0 {
				bound := stallBound + time.Duration(s>>20)*time.Second
				if !mon.waitFor(cum, bound) {
					stalledAt = i
					stallSeen = mon.seen.Load()
				}
			}
			if bar != nil && i == 0 {
				bar.arrive(stalledAt >= 0)
			}
			if p := c.PausesMs[i%len(c.PausesMs)]; p > 0 {
				time.Sleep(time.Duration(p) * time.Millisecond)
			}
		}
		if c.Framing != "cl" {
			conn.Write([]byte("0\r\n\r\n"))
		}
	}
	r.mu.Unlock()
	defer func() {
		r.mu.Lock()
		delete(r.mons, id)
		delete(r.scripts, tok)
		r.mu.Unlock()
		mon.pw.Close()
		r.fp.Forget(id)
	}()

	wire := fmt.Sprintf("GET /c05 HTTP/1.1\r\nHost: c05.example\r\nAccept-Encoding: identity\r\n%s: %s\r\n\r\n", vh.TokenHeader, tok)
	q := r.fp.Submit(id, "", "GET", []byte(wire))
	up := q.Wait(60*time.Second + time.Duration(len(c.Chunks))*stallBound/4)
	select {
	case <-finished:
	case <-time.After(10 * time.Second):
	}
	if r.agent.FlagCount() > 0 || !r.agent.Alive() {
		o.Err = fmt.Errorf("agent died or reported while streaming: %v %s", r.agent.Flags(), r.agent.Tail(5))
		closeRig()
		return o
	}
	if stalledAt >= 0 {
		var cumStall int64
		for i := 0; i <= stalledAt; i++ {
			cumStall += int64(c.Chunks[i])
		}
		// confirmation: after the producer was released, did the withheld chunk arrive?
		arrived := mon.waitFor(cumStall, 5*time.Second)
		if arrived {
			o.Err = fmt.Errorf("chunk %d (%d bytes, %d cumulative) had been flushed by the backend but only %d payload bytes reached the proxy within %v while the backend was idle; the missing bytes arrived only after the backend produced further output (chunks %v)",
				stalledAt, c.Chunks[stalledAt], cumStall, stallSeen, stallBound, c.Chunks)
		} else if up != nil {
			o.Err = fmt.Errorf("chunk %d never reached the proxy: upload completed with %d of %d payload bytes", stalledAt, mon.seen.Load(), total)
		} else {
			o.Inconclusive = fmt.Sprintf("chunk %d not observed and upload never completed (agent/peers unhealthy?)", stalledAt)
		}
		return o
	}
	if up == nil {
		o.Err = fmt.Errorf("all %d chunks were relayed in lock-step but the upload never completed", len(c.Chunks))
		o.TimedOut = true
		return o
	}
	if up.ParseErr != nil || len(up.Body) != total {
		o.Err = fmt.Errorf("upload carried %d body bytes (parse error %v), backend sent %d", len(up.Body), up.ParseErr, total)
		return o
	}
	off := 0
	for i, s := range c.Chunks {
		want := vh.Payload(fmt.Sprint("c05-", i), s)
		if string(up.Body[off:off+s]) != string(want) {
			o.Err = fmt.Errorf("chunk %d content altered in the upload", i)
			return o
		}
		off += s
	}
	return o
}

func TestPropLockstepStreaming(t *testing.T) {
	defer closeRig()
	vh.Rapid(t, vh.Scale(150, 2000), func(rt *rapid.T) {
		c := genCase(rt)
		rec.Check(rt, &c, func() vh.Outcome { return vh.Confirm(func(int) vh.Outcome { return runCase(rt, &c) }) })
	})
}

func TestReplay(t *testing.T) {
	defer closeRig()
	var c Case
	ok, err := vh.ReplayCase("lockstep-streaming", &c)
	if err != nil {
		t.Fatalf("INFRA: %v", err)
	}
	if !ok {
		t.Skip("no replay for this part")
	}
	for i := 0; i < vh.ReplayRuns(); i++ {
		rec.Check(t, &c, func() vh.Outcome { return vh.Confirm(func(int) vh.Outcome { return runCase(t, &c) }) })
	}
}
