// Package c20 checks property C20: agent lifecycle (health gating, unhealthy exit, graceful shutdown).
package c20

import (
	"fmt"
	"net"
	"net/http"
	"sync"
	"sync/atomic"
	"syscall"
	"testing"
	"time"

	"pgregory.net/rapid"
	"verif/harness/vh"
)

var (
	recH = vh.NewRecorder("C20", "health",
		"health-check result sequences of 3-9 booleans (failure kinds: 500, 404, 503) x unhealthy threshold 1-4, interval 1 s, served by the "+
			"scripted backend's health path to the real agent binary (8 scenarios concurrently); oracle = counter model over the observed "+
			"check sequence: no pending-list call before the first passing check and one soon after it, exit (non-zero) right after the "+
			"check completing `threshold` consecutive failures and not before, alive otherwise; non-trivial = sequence with a failure run "+
			"of length threshold-1 followed by a pass, or a late-healthy prefix; distinct = SHA-256 of the scenario"+
			" Later additions: every batch holds a backend that comes up late and fails again (fewer times than the threshold) right after its first pass; in half of the scenarios one or two checks are answered only after 1.3-3.3 s (longer than the interval).")
	recS = vh.NewRecorder("C20", "shutdown",
		"signal in {SIGINT,SIGTERM} x grace in {0,1,2,3 s} x phase in {idle, listed-not-fetched, at backend, uploading} x backend latency "+
			"relative to grace, against the real agent binary (8 scenarios concurrently); oracle: with grace>0 a request already at the "+
			"backend that finishes 0.5 s before the period ends is uploaded completely, no pending-list call starts after the first list "+
			"call that returned >=200 ms after the signal, exit in [grace, grace+2 s]; with grace=0 exit within 2 s; non-trivial = signal "+
			"while a request is at the backend; distinct = SHA-256 of the scenario"+
			" Later additions: phases rotate through every batch; phase \"failing\": list calls answered 500 from shortly before the signal (the signal is sent once two failed calls were seen); a response being uploaded at the signal must complete; phase \"starting\": the signal arrives while the agent still waits for its backend's first passing health check (exit within 2 s without a period, within period+3 s with one, no list call ever).")
)

func TestMain(m *testing.M) { vh.Main(m, recH, recS) }

// ---------------------------------------------------------------- health

type HealthScn struct {
	Threshold int    `json:"threshold"`
	Results   []bool `json:"results"`
	FailCodes []int  `json:"fail_codes"`
	// DelaysMs[i] > 0: the backend answers check i only after that long (longer than the check interval of 1 s)
	DelaysMs []int `json:"delays_ms,omitempty"`
}

type HealthCase struct {
	Scenarios []HealthScn `json:"scenarios"`
}

// genHealthScn draws scenario i of a batch; shapes rotate so that every batch of 8 holds every shape twice.
func genHealthScn(t *rapid.T, i int) HealthScn {
	s := HealthScn{Threshold: rapid.IntRange(1, 4).Draw(t, "threshold")}
	n := rapid.IntRange(3, 9).Draw(t, "n")
	switch i % 4 {
	case 1: // a backend that comes up late, and whose checks fail again (fewer than the threshold) right after the first pass
		s.Threshold = rapid.IntRange(2, 3).Draw(t, "lateThreshold")
		for k := rapid.IntRange(1, 2).Draw(t, "lateBy"); k > 0; k-- {
			s.Results = append(s.Results, false)
		}
		s.Results = append(s.Results, true)
		for k := 0; k < s.Threshold-1; k++ {
			s.Results = append(s.Results, false)
		}
		s.Results = append(s.Results, true)
		for k := 0; k < s.Threshold; k++ {
			s.Results = append(s.Results, false)
		}
	case 0: // near miss: threshold-1 failures, a pass, then threshold failures
		if rapid.Bool().Draw(t, "late") {
			s.Results = append(s.Results, false)
		}
		s.Results = append(s.Results, true)
		for i := 0; i < s.Threshold-1; i++ {
			s.Results = append(s.Results, false)
		}
		s.Results = append(s.Results, true)
		for i := 0; i < s.Threshold; i++ {
			s.Results = append(s.Results, false)
		}
	default:
		for i := 0; i < n; i++ {
			s.Results = append(s.Results, rapid.IntRange(0, 2).Draw(t, "r") != 0)
		}
	}
	if len(s.Results) > 10 {
		s.Results = s.Results[:10]
	}
	s.FailCodes = rapid.SliceOfN(rapid.SampledFrom([]int{500, 404, 503}), 1, 3).Draw(t, "codes")
	if rapid.Bool().Draw(t, "slowChecks") {
		// one or two checks that take longer than the interval (the counter is about checks, not about ticks)
		s.DelaysMs = make([]int, len(s.Results))
		for k := rapid.IntRange(1, 2).Draw(t, "nslow"); k > 0; k-- {
			s.DelaysMs[rapid.IntRange(0, len(s.Results)-1).Draw(t, "slowAt")] = rapid.SampledFrom([]int{1300, 2400, 3300}).Draw(t, "slowMs")
		}
	}
	return s
}

type hcheck struct {
	at   time.Time
	pass bool
}

func runHealthScn(s *HealthScn) (o vh.Outcome) {
	// model
	firstPass := -1
	for i, r := range s.Results {
		if r {
			firstPass = i
			break
		}
	}
	exitAfter := -1 // index of the check after which the agent must exit
	if firstPass >= 0 {
		bad := 0
		for i := firstPass + 1; i < len(s.Results); i++ {
			if s.Results[i] {
				bad = 0
			} else {
				bad++
			}
			if bad >= s.Threshold {
				exitAfter = i
				break
			}
		}
	}
	// non-trivial: near miss or late healthy
	if firstPass > 0 {
		o.NonTrivial = true
		o.Classes = append(o.Classes, "late-healthy")
	}
	if firstPass >= 0 {
		run := 0
		for i := firstPass + 1; i < len(s.Results); i++ {
			if !s.Results[i] {
				run++
			} else {
				if run > 0 && run == s.Threshold-1 {
					o.NonTrivial = true
					o.Classes = append(o.Classes, "near-miss-reset")
				}
				run = 0
			}
		}
	}
	if exitAfter >= 0 {
		o.Classes = append(o.Classes, "exit-expected")
	} else {
		o.Classes = append(o.Classes, "no-exit-expected")
	}
	o.Classes = append(o.Classes, fmt.Sprintf("threshold=%d", s.Threshold))

	var mu sync.Mutex
	var checks []hcheck
	ln, err := net.Listen("tcp", "127.0.0.1:0")
	if err != nil {
		o.Inconclusive = err.Error()
		return
	}
	srv := &http.Server{Handler: http.HandlerFunc(func(w http.ResponseWriter, r *http.Request) {
		if r.URL.Path != "/health" {
			w.Write([]byte("ok"))
			return
		}
		mu.Lock()
		i := len(checks)
		pass := firstPass >= 0 // checks beyond the script pass, unless the backend never becomes healthy at all
		if i < len(s.Results) {
			pass = s.Results[i]
		}
		checks = append(checks, hcheck{time.Now(), pass})
		mu.Unlock()
		if i < len(s.DelaysMs) && s.DelaysMs[i] > 0 {
			time.Sleep(time.Duration(s.DelaysMs[i]) * time.Millisecond)
		}
		if pass {
			w.WriteHeader(200)
		} else {
			w.WriteHeader(s.FailCodes[i%len(s.FailCodes)])
		}
	})}
	go srv.Serve(ln)
	defer srv.Close()
	fp := vh.NewFakeProxy()
	defer fp.Close()
	fp.IdleReply = 100 * time.Millisecond
	meta := vh.NewFakeMeta()
	defer meta.Close()
	agent, err := vh.StartAgent(meta, fp.URL, ln.Addr().String(), []string{"--health-check-interval-seconds=1",
		fmt.Sprintf("--health-check-unhealthy-threshold=%d", s.Threshold), "--health-check-path=/health"})
	if err != nil {
		o.Inconclusive = err.Error()
		return
	}
	defer agent.Stop()
	nchecks := func() int { mu.Lock(); defer mu.Unlock(); return len(checks) }
	want := len(s.Results)
	if exitAfter >= 0 {
		want = exitAfter + 1
	}
	slowTotal, lastDelay := 0, 0
	for i, d := range s.DelaysMs {
		if i < want {
			slowTotal += d
		}
		if i == want-1 {
			lastDelay = d
		}
	}
	if slowTotal > 0 {
		o.Classes = append(o.Classes, "check-slower-than-the-interval")
	}
	deadline := time.Now().Add(time.Duration(want+6)*time.Second + time.Duration(slowTotal)*time.Millisecond)
	for nchecks() < want && agent.Alive() && time.Now().Before(deadline) {
		time.Sleep(10 * time.Millisecond)
	}
	n := nchecks()
	if n < want {
		if !agent.Alive() {
			o.Err = fmt.Errorf("agent exited after %d health checks %v; by the counter model (threshold %d, results %v) it must run until check %d: %s",
				n, observed(checks, &mu), s.Threshold, s.Results, want, agent.Tail(4))
			return
		}
		o.Inconclusive = fmt.Sprintf("only %d of %d health checks observed in time", n, want)
		return
	}
	if exitAfter >= 0 {
		select {
		case <-agent.Exited():
		case <-time.After(time.Duration(2500+lastDelay) * time.Millisecond):
			o.Err = fmt.Errorf("agent still running 2.5s after %d consecutive failed health checks (threshold %d, results %v, observed %d checks)", s.Threshold, s.Threshold, s.Results, nchecks())
			return
		}
		if agent.ExitErr() == nil {
			o.Err = fmt.Errorf("agent exited with status 0 after becoming unhealthy")
			return
		}
		if got := nchecks(); got > want {
			o.Err = fmt.Errorf("agent performed %d health checks, expected exit after check %d", got, want)
			return
		}
	} else {
		// must still be alive a little after the last scripted check
		time.Sleep(time.Duration(300+lastDelay) * time.Millisecond)
		if !agent.Alive() {
			o.Err = fmt.Errorf("agent exited although no run of %d consecutive failures occurred after the first pass (results %v): %s", s.Threshold, s.Results, agent.Tail(4))
			return
		}
	}
	if fl := agent.Flags(); len(fl) > 0 && !agent.Alive() && exitAfter < 0 {
		o.Err = fmt.Errorf("agent reported: %s", fl[0])
		return
	}
	// gating: no list call before the first passing check arrived; one soon after
	calls := fp.ListCalls()
	mu.Lock()
	cs := append([]hcheck(nil), checks...)
	mu.Unlock()
	if firstPass < 0 {
		if len(calls) > 0 {
			o.Err = fmt.Errorf("agent polled the proxy %d times although no health check ever passed", len(calls))
		}
		return
	}
	passAt := cs[firstPass].at
	for _, c := range calls {
		if c.Start.Before(passAt) {
			o.Err = fmt.Errorf("agent asked the proxy for work %v before the first passing health check (results %v)", passAt.Sub(c.Start), s.Results)
			return
		}
	}
	if len(calls) == 0 {
		if exitAfter >= 0 && cs[exitAfter].at.Sub(passAt) < 3*time.Second {
			return // exited before polling was due
		}
		o.Err = fmt.Errorf("agent never asked the proxy for work although a health check passed")
		o.TimedOut = true
		return
	}
	return
}

func observed(cs []hcheck, mu *sync.Mutex) []bool {
	mu.Lock()
	defer mu.Unlock()
	var out []bool
	for _, c := range cs {
		out = append(out, c.pass)
	}
	return out
}

func runBatch[T any](rec *vh.Recorder, scns []T, run func(*T) vh.Outcome) vh.Outcome {
	outs := make([]vh.Outcome, len(scns))
	var wg sync.WaitGroup
	for i := range scns {
		i := i
		wg.Add(1)
		go func() {
			defer wg.Done()
			outs[i] = vh.Confirm(func(int) vh.Outcome { return run(&scns[i]) })
		}()
	}
	wg.Wait()
	o := vh.Outcome{SkipCount: true}
	for i, x := range outs {
		e := x.Err
		x.Err = nil
		rec.Done(&scns[i], x) // every scenario is one evaluation; the failure is persisted with the whole batch
		x.Err = e
		o.NonTrivial = o.NonTrivial || x.NonTrivial
		o.Classes = append(o.Classes, x.Classes...)
		if x.Err != nil && o.Err == nil {
			o.Err = x.Err
		}
		if x.Inconclusive != "" {
			o.Inconclusive = x.Inconclusive
		}
	}
	return o
}

func TestPropHealth(t *testing.T) {
	vh.Rapid(t, vh.Scale(2, 30), func(rt *rapid.T) {
		var c HealthCase
		for i := 0; i < 8; i++ {
			c.Scenarios = append(c.Scenarios, genHealthScn(rt, i))
		}
		recH.Check(rt, &c, func() vh.Outcome { return runBatch(recH, c.Scenarios, runHealthScn) })
	})
}

// ---------------------------------------------------------------- shutdown

type ShutScn struct {
	Signal    string `json:"signal"` // INT | TERM
	GraceS    int    `json:"grace_s"`
	Phase     string `json:"phase"` // idle | listed | backend | uploading | failing (the proxy starts failing list calls shortly before the signal) | starting (health checks have not passed yet)
	LatencyMs int    `json:"latency_ms"`
	SignalMs  int    `json:"signal_after_ms"`
}

type ShutCase struct {
	Scenarios []ShutScn `json:"scenarios"`
}

// genShutScn draws scenario i of a batch; the phases rotate through the batch (from a drawn offset) so that every
// batch of 8 contains every phase at least once.
func genShutScn(t *rapid.T, i, offset int) ShutScn {
	cycle := []string{"backend", "failing", "listed", "uploading", "idle", "backend", "failing", "starting"}
	s := ShutScn{
		Signal: rapid.SampledFrom([]string{"INT", "TERM"}).Draw(t, "signal"),
		GraceS: rapid.SampledFrom([]int{1, 2, 3, 0}).Draw(t, "grace"),
		Phase:  cycle[(i+offset)%len(cycle)],
	}
	s.SignalMs = rapid.SampledFrom([]int{50, 100, 200}).Draw(t, "signalAfter")
	switch rapid.IntRange(0, 2).Draw(t, "lat") {
	case 0:
		s.LatencyMs = 300
	case 1:
		s.LatencyMs = s.GraceS*500 + 200
	default:
		s.LatencyMs = s.GraceS*1000 + 1500
	}
	return s
}

func runShutScn(s *ShutScn) (o vh.Outcome) {
	if s.Phase == "backend" {
		o.NonTrivial = true
		o.Classes = append(o.Classes, "signal-while-at-backend")
	}
	o.Classes = append(o.Classes, "phase-"+s.Phase, fmt.Sprintf("grace=%d", s.GraceS), "SIG"+s.Signal)
	atBackend := make(chan struct{}, 1)
	backend := vh.NewRawBackend(func(rq *vh.RawRequest, c net.Conn) bool {
		if rq.Target == "/slow" {
			select {
			case atBackend <- struct{}{}:
			default:
			}
			time.Sleep(time.Duration(s.LatencyMs) * time.Millisecond)
		}
		if rq.Target == "/never-healthy" {
			select {
			case atBackend <- struct{}{}:
			default:
			}
			fmt.Fprintf(c, "HTTP/1.1 503 Service Unavailable\r\nContent-Length: 0\r\n\r\n")
			return true
		}
		body := "response-of-" + rq.Target
		fmt.Fprintf(c, "HTTP/1.1 200 OK\r\nContent-Length: %d\r\n\r\n%s", len(body), body)
		return true
	})
	defer backend.Close()
	fp := vh.NewFakeProxy()
	defer fp.Close()
	fp.IdleReply = 300 * time.Millisecond
	fetching := make(chan struct{}, 1)
	uploading := make(chan struct{}, 1)
	release := make(chan struct{})
	fp.SetFetchHook(func(q *vh.FPRequest, w http.ResponseWriter, r *http.Request) bool {
		if s.Phase == "listed" && q.ID == "slow" {
			select {
			case fetching <- struct{}{}:
			default:
			}
			<-release
		}
		return false
	})
	fp.SetUploadHook(func(q *vh.FPRequest, w http.ResponseWriter, r *http.Request) bool {
		if s.Phase == "uploading" && q.ID == "slow" {
			select {
			case uploading <- struct{}{}:
			default:
			}
			time.Sleep(time.Duration(s.LatencyMs) * time.Millisecond)
		}
		return false
	})
	var listsFail atomic.Bool
	fp.SetListHook(func(w http.ResponseWriter, r *http.Request) bool {
		if listsFail.Load() {
			http.Error(w, "pending list unavailable", http.StatusInternalServerError)
			return true
		}
		return false
	})
	meta := vh.NewFakeMeta()
	defer meta.Close()
	var args []string
	if s.GraceS > 0 {
		args = append(args, fmt.Sprintf("--graceful-shutdown-timeout=%ds", s.GraceS))
	}
	if s.Phase == "starting" {
		// the backend is not up yet: the agent is still waiting for its first passing health check when the signal arrives
		args = append(args, "--health-check-interval-seconds=1", "--health-check-path=/never-healthy", "--health-check-unhealthy-threshold=2")
	}
	agent, err := vh.StartAgent(meta, fp.URL, backend.Addr, args)
	if err != nil {
		o.Inconclusive = err.Error()
		return
	}
	defer agent.Stop()
	defer close(release)
	if s.Phase == "starting" {
		select {
		case <-atBackend:
		case <-time.After(15 * time.Second):
			o.Inconclusive = "no health check arrived"
			return
		}
		time.Sleep(time.Duration(s.SignalMs) * time.Millisecond)
		sig := syscall.SIGINT
		if s.Signal == "TERM" {
			sig = syscall.SIGTERM
		}
		tSig := time.Now()
		agent.Signal(sig)
		grace := time.Duration(s.GraceS) * time.Second
		select {
		case <-agent.Exited():
		case <-time.After(grace + 3*time.Second):
			o.Err = fmt.Errorf("SIG%s while the agent was still waiting for its backend to become healthy (graceful-shutdown period %v): the agent was still running %v later", s.Signal, grace, grace+3*time.Second)
			o.TimedOut = true
			return
		}
		if d := time.Since(tSig); s.GraceS == 0 && d > 2*time.Second {
			o.Err = fmt.Errorf("without a graceful-shutdown period the agent took %v to exit after SIG%s (it was waiting for its backend to become healthy)", d, s.Signal)
			o.TimedOut = true
			return
		}
		if n := len(fp.ListCalls()); n > 0 {
			o.Err = fmt.Errorf("the agent asked the proxy for work %d times although no health check ever passed (signal during start-up)", n)
		}
		return
	}
	wq := fp.Submit("warmup", "", "GET", []byte("GET /warmup HTTP/1.1\r\nHost: x\r\n\r\n"))
	if wq.Wait(30*time.Second) == nil {
		o.Inconclusive = "agent did not come up"
		return
	}
	var slow *vh.FPRequest
	latency := 0
	if s.Phase == "failing" {
		listsFail.Store(true)
		// the poll that was in flight still returns normally; wait until the agent has met the first failures
		failing := false
		for deadline := time.Now().Add(10 * time.Second); time.Now().Before(deadline) && !failing; time.Sleep(2 * time.Millisecond) {
			n := 0
			for _, c := range fp.ListCalls() {
				if c.Status == http.StatusInternalServerError {
					n++
				}
			}
			failing = n >= 2
		}
		if !failing {
			o.Inconclusive = "the agent did not poll again after the proxy started failing"
			return
		}
	} else if s.Phase != "idle" {
		path := "/slow"
		if s.Phase != "backend" {
			path = "/fast"
		}
		slow = fp.Submit("slow", "", "GET", []byte("GET "+path+" HTTP/1.1\r\nHost: x\r\n\r\n"))
		var ch chan struct{}
		switch s.Phase {
		case "listed":
			ch = fetching
		case "backend":
			ch = atBackend
			latency = s.LatencyMs
		case "uploading":
			ch = uploading
		}
		select {
		case <-ch:
		case <-time.After(10 * time.Second):
			o.Inconclusive = "request did not reach phase " + s.Phase
			return
		}
	}
	phaseAt := time.Now()
	time.Sleep(time.Duration(s.SignalMs) * time.Millisecond)
	sig := syscall.SIGINT
	if s.Signal == "TERM" {
		sig = syscall.SIGTERM
	}
	tSig := time.Now()
	agent.Signal(sig)
	grace := time.Duration(s.GraceS) * time.Second
	select {
	case <-agent.Exited():
	case <-time.After(grace + 4*time.Second):
		o.Err = fmt.Errorf("agent still running %v after SIG%s with a graceful-shutdown period of %v (phase %s)", grace+4*time.Second, s.Signal, grace, s.Phase)
		o.TimedOut = true
		return
	}
	exitAfter := time.Since(tSig)
	if s.GraceS == 0 {
		if exitAfter > 2*time.Second {
			o.Err = fmt.Errorf("without a graceful-shutdown period the agent took %v to exit after SIG%s", exitAfter, s.Signal)
			o.TimedOut = true
			return
		}
	} else {
		if exitAfter < grace-50*time.Millisecond {
			o.Err = fmt.Errorf("agent exited %v after SIG%s although the graceful-shutdown period is %v (phase %s)", exitAfter, s.Signal, grace, s.Phase)
			return
		}
		if exitAfter > grace+2*time.Second {
			o.Err = fmt.Errorf("agent exited %v after SIG%s, more than 2s after the end of the %v graceful-shutdown period", exitAfter, s.Signal, grace)
			o.TimedOut = true
			return
		}
	}
	if fl := agent.Flags(); len(fl) > 0 {
		o.Err = fmt.Errorf("agent reported: %s", fl[0])
		return
	}
	if s.GraceS > 0 {
		// no list call starts after the first list call that returned >= 200ms after the signal
		calls := fp.ListCalls()
		var cut time.Time
		for _, c := range calls {
			if c.End.After(tSig.Add(200 * time.Millisecond)) {
				cut = c.End
				break
			}
		}
		if !cut.IsZero() {
			for _, c := range calls {
				if c.Start.After(cut) {
					o.Err = fmt.Errorf("a pending-list call started %v after SIG%s, after the call that was in flight at the signal had returned (%v after the signal)",
						c.Start.Sub(tSig), s.Signal, cut.Sub(tSig))
					return
				}
			}
		}
		// a request whose response was already being uploaded when the signal arrived is answered in full as well
		if s.Phase == "uploading" {
			remaining := time.Duration(s.LatencyMs)*time.Millisecond - tSig.Sub(phaseAt)
			if remaining < grace-500*time.Millisecond {
				up := slow.Wait(100 * time.Millisecond)
				if up == nil || string(up.Body) != "response-of-/fast" {
					o.Err = fmt.Errorf("the response of a request was being uploaded when SIG%s arrived, the proxy finished reading %v later (period %v) but the upload did not complete intact", s.Signal, remaining, grace)
					return
				}
				o.Classes = append(o.Classes, "in-flight-upload-completed")
			}
		}
		// the request already at the backend is answered in full if the backend finishes within the period
		if s.Phase == "backend" {
			remaining := time.Duration(latency)*time.Millisecond - tSig.Sub(phaseAt)
			if remaining < grace-500*time.Millisecond {
				up := slow.Wait(100 * time.Millisecond)
				if up == nil {
					o.Err = fmt.Errorf("request was at the backend when SIG%s arrived, the backend finished %v later (period %v) but no response was uploaded", s.Signal, remaining, grace)
					return
				}
				if string(up.Body) != "response-of-/slow" {
					o.Err = fmt.Errorf("request at the backend during shutdown was answered with %q", up.Body)
					return
				}
				o.Classes = append(o.Classes, "in-flight-request-completed")
			}
		}
	}
	return
}

func TestPropShutdown(t *testing.T) {
	vh.Rapid(t, vh.Scale(3, 30), func(rt *rapid.T) {
		var c ShutCase
		offset := rapid.IntRange(0, 7).Draw(rt, "phaseOffset")
		for i := 0; i < 8; i++ {
			c.Scenarios = append(c.Scenarios, genShutScn(rt, i, offset))
		}
		recS.Check(rt, &c, func() vh.Outcome { return runBatch(recS, c.Scenarios, runShutScn) })
	})
}

func TestReplay(t *testing.T) {
	var h HealthCase
	if ok, err := vh.ReplayCase("health", &h); err != nil {
		t.Fatalf("INFRA: %v", err)
	} else if ok {
		recH.Check(t, &h, func() vh.Outcome { return runBatch(recH, h.Scenarios, runHealthScn) })
		return
	}
	var s ShutCase
	if ok, _ := vh.ReplayCase("shutdown", &s); ok {
		recS.Check(t, &s, func() vh.Outcome { return runBatch(recS, s.Scenarios, runShutScn) })
		return
	}
	t.Skip("no replay for this package")
}
