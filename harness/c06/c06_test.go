// Package c06 checks property C06: retried response uploads are never corrupted.
package c06

import (
	"bufio"
	"bytes"
	"fmt"
	"io"
	"net"
	"net/http"
	"strings"
	"sync"
	"testing"
	"time"

	"github.com/google/inverting-proxy/agent/utils"
	"pgregory.net/rapid"
	"verif/harness/vh"
)

var rec = vh.NewRecorder("C06", "upload-faults",
	"fault scripts of up to 4 per-attempt entries, kind in {5xx before the body is read, 5xx after n body bytes, 5xx after the whole body, "+
		"TCP close inside the request head, close after n bytes, RST after n bytes, no fault} x n in {0,1,100,4000,4095,4096,4097,5000,end} x "+
		"whether the failed connection keeps draining, against utils.NewResponseForwarder (in-process, -race) writing a response of size "+
		"{0,1,100,3800-4200,4095,4096,4097,5000,64KiB} in generated segments with pauses; the byte-level TCP fault server records every "+
		"attempt, optionally with 1-3 healthy uploads of other requests running at the same time (every upload must carry the response of the request id it is posted under); non-trivial = the first attempt is faulted; distinct = SHA-256 of the canonical case"+
		" Later additions: bodies sized so that the serialised response ends within a few bytes of offset 4096 (framing overhead measured by one healthy upload per status); 0-3 healthy uploads of other requests running alongside, each of which must carry the response of its own request id.")

func TestMain(m *testing.M) { vh.Main(m, rec) }

type Fault struct {
	Kind  string `json:"kind"` // ok | 5xx-early | 5xx-after-n | 5xx-after-body | close-in-head | close-after-n | rst-after-n
	N     int    `json:"n,omitempty"`
	Drain bool   `json:"drain,omitempty"`
}

type Case struct {
	Status   int     `json:"status"`
	Size     int     `json:"size"`
	Segments []int   `json:"segments"` // write sizes; remainder in one write
	PausesMs []int   `json:"pauses_ms"`
	Script   []Fault `json:"script"`
	Others   int     `json:"concurrent_other_uploads,omitempty"` // healthy uploads of other requests started while this one is being (re)tried
	// AlignTotal, when > 0, overrides Size at run time: the body is written in one piece and sized so that
	// the serialised response is exactly AlignTotal bytes long (head and chunk framing are measured first).
	AlignTotal int `json:"align_total,omitempty"`
}

var (
	kinds = []string{"ok", "5xx-early", "5xx-early", "5xx-after-n", "5xx-after-body", "close-in-head", "close-after-n", "rst-after-n"}
	ns    = []int{0, 1, 100, 4000, 4095, 4096, 4097, 5000, 1 << 30}
)

func genCase(t *rapid.T) Case {
	var c Case
	c.Status = rapid.SampledFrom([]int{200, 200, 404, 500}).Draw(t, "status")
	switch rapid.IntRange(0, 3).Draw(t, "sizeKind") {
	case 0:
		c.Size = rapid.IntRange(3800, 4200).Draw(t, "sizeNear")
	case 1:
		// the serialised response (about 90 bytes of head and chunk framing more than the body) ends within a few bytes of offset 4096
		c.Size = rapid.IntRange(3985, 4030).Draw(t, "sizeAtLimit")
	default:
		c.Size = rapid.SampledFrom([]int{0, 1, 100, 4000, 4095, 4096, 4097, 5000, 65536}).Draw(t, "size")
	}
	c.Segments = rapid.SliceOfN(rapid.SampledFrom([]int{1, 10, 100, 1000, 4096, 5000}), 0, 4).Draw(t, "segments")
	c.PausesMs = rapid.SliceOfN(rapid.SampledFrom([]int{0, 0, 1, 5, 20, 80}), 1, 3).Draw(t, "pauses")
	n := rapid.IntRange(1, 4).Draw(t, "nscript")
	for i := 0; i < n; i++ {
		f := Fault{Kind: rapid.SampledFrom(kinds).Draw(t, "kind")}
		switch f.Kind {
		case "5xx-after-n", "close-after-n", "rst-after-n":
			f.N = rapid.SampledFrom(ns).Draw(t, "n")
		case "close-in-head":
			f.N = rapid.SampledFrom([]int{0, 1, 20, 100}).Draw(t, "nhead")
		}
		if f.Kind == "5xx-early" || f.Kind == "5xx-after-n" {
			f.Drain = rapid.Bool().Draw(t, "drain")
		}
		c.Script = append(c.Script, f)
	}
	c.Others = rapid.SampledFrom([]int{0, 0, 1, 2, 3}).Draw(t, "others")
	if rapid.IntRange(0, 4).Draw(t, "aligned") == 0 {
		// one of the pieces of the serialised response ends exactly at the replay limit, and the first attempt fails late
		c.AlignTotal = rapid.IntRange(4090, 4106).Draw(t, "alignTotal")
		c.Segments = nil
		if rapid.Bool().Draw(t, "alignedLateFailure") {
			c.Script[0] = Fault{Kind: "5xx-after-body"}
		}
	}
	return c
}

type attempt struct {
	fault   Fault
	raw     []byte // decoded POST body (= serialised response bytes) as far as received
	rawErr  error
	acked   bool
	replied int
	conn    int
	at, end time.Time
	head    string
	reqID   string
	// decoder state of the chunked POST body, so that reading can be resumed
	inChunk    int
	afterChunk bool
}

type faultServer struct {
	ln       net.Listener
	mu       sync.Mutex
	script   []Fault
	attempts []*attempt
	others   []*attempt
	conns    []net.Conn
	wg       sync.WaitGroup
}

func newFaultServer(script []Fault) *faultServer {
	ln, err := net.Listen("tcp", "127.0.0.1:0")
	if err != nil {
		panic(err)
	}
	s := &faultServer{ln: ln, script: script}
	go func() {
		for {
			c, err := ln.Accept()
			if err != nil {
				return
			}
			s.mu.Lock()
			s.conns = append(s.conns, c)
			s.mu.Unlock()
			s.wg.Add(1)
			go func() {
				defer s.wg.Done()
				s.serveConn(c)
			}()
		}
	}()
	return s
}

func (s *faultServer) next(c net.Conn) *attempt {
	s.mu.Lock()
	defer s.mu.Unlock()
	ci := 0
	for i, x := range s.conns {
		if x == c {
			ci = i + 1
		}
	}
	f := Fault{Kind: "ok"}
	if len(s.attempts) < len(s.script) {
		f = s.script[len(s.attempts)]
	}
	a := &attempt{fault: f, conn: ci, at: time.Now()}
	s.attempts = append(s.attempts, a)
	return a
}

func reset(c net.Conn) {
	if tc, ok := c.(*net.TCPConn); ok {
		tc.SetLinger(0)
	}
	c.Close()
}

// readDecoded reads up to limit decoded body bytes of a chunked request body (limit<0: until the end). It can be
// called again for the same attempt and then continues where it stopped (a.inChunk bytes of the current chunk are left).
func readDecoded(br *bufio.Reader, limit int, a *attempt, mu *sync.Mutex) (complete bool) {
	for {
		if a.inChunk == 0 {
			if a.afterChunk {
				br.ReadString('\n') // CRLF behind the chunk data
				a.afterChunk = false
			}
			line, err := br.ReadString('\n')
			if err != nil {
				a.rawErr = err
				return false
			}
			var n int
			if _, err := fmt.Sscanf(strings.TrimSpace(line), "%x", &n); err != nil {
				a.rawErr = fmt.Errorf("bad outer chunk size %q", line)
				return false
			}
			if n == 0 {
				br.ReadString('\n')
				return true
			}
			a.inChunk = n
		}
		for a.inChunk > 0 {
			want := a.inChunk
			if want > 4096 {
				want = 4096
			}
			if limit >= 0 {
				mu.Lock()
				have := len(a.raw)
				mu.Unlock()
				if have >= limit {
					return false
				}
				if have+want > limit {
					want = limit - have
				}
			}
			buf := make([]byte, want)
			k, err := io.ReadFull(br, buf)
			mu.Lock()
			a.raw = append(a.raw, buf[:k]...)
			mu.Unlock()
			a.inChunk -= k
			if err != nil {
				a.rawErr = err
				return false
			}
		}
		a.afterChunk = true
	}
}

func (s *faultServer) serveConn(c net.Conn) {
	defer c.Close()
	br := bufio.NewReaderSize(c, 4096)
	for {
		c.SetDeadline(time.Now().Add(20 * time.Second))
		// peek: is there another request on this connection?
		if _, err := br.Peek(1); err != nil {
			return
		}
		// only an upload of the forwarder under test counts as an attempt (anything else on this port is a stray)
		first, err := br.ReadString('\n')
		if err != nil || !strings.HasPrefix(first, "POST ") || !strings.Contains(first, "agent/response") {
			return
		}
		// the head up to and including the request id header decides whose upload this is
		head := first
		reqID := ""
		for reqID == "" {
			line, err := br.ReadString('\n')
			head += line
			if err != nil || line == "\r\n" {
				break
			}
			if i := strings.IndexByte(line, ':'); i > 0 && strings.EqualFold(line[:i], "X-Inverting-Proxy-Request-ID") {
				reqID = strings.TrimSpace(line[i+1:])
			}
		}
		if reqID != mainID {
			s.serveOther(c, br, reqID, head)
			return
		}
		a := s.next(c)
		a.head = head
		a.reqID = reqID
		f := a.fault
		if f.Kind == "close-in-head" {
			io.CopyN(io.Discard, br, int64(f.N))
			c.Close()
			return
		}
		// read the rest of the head
		for !strings.HasSuffix(a.head, "\r\n\r\n") {
			line, err := br.ReadString('\n')
			a.head += line
			if err != nil {
				a.rawErr = err
				return
			}
		}
		reply := func(code int, closeAfter bool) {
			a.replied = code
			a.end = time.Now()
			extra := ""
			if closeAfter {
				extra = "Connection: close\r\n"
			}
			fmt.Fprintf(c, "HTTP/1.1 %d X\r\nContent-Length: 0\r\n%s\r\n", code, extra)
		}
		drain := func() {
			c.SetDeadline(time.Now().Add(400 * time.Millisecond))
			readDecoded(br, -1, a, &s.mu)
		}
		switch f.Kind {
		case "ok":
			if readDecoded(br, -1, a, &s.mu) {
				s.mu.Lock()
				a.acked = true
				s.mu.Unlock()
				reply(200, false)
				continue
			}
			reply(400, true)
			return
		case "5xx-early":
			reply(503, true)
			if f.Drain {
				drain()
			}
			return
		case "5xx-after-n":
			done := readDecoded(br, f.N, a, &s.mu)
			reply(500, !done)
			if done {
				continue
			}
			if f.Drain {
				drain()
			}
			return
		case "5xx-after-body":
			if readDecoded(br, -1, a, &s.mu) {
				reply(502, false)
				continue
			}
			return
		case "close-after-n":
			readDecoded(br, f.N, a, &s.mu)
			c.Close()
			return
		case "rst-after-n":
			readDecoded(br, f.N, a, &s.mu)
			reset(c)
			return
		}
	}
}

const mainID = "req-c06"

// serveOther acknowledges an upload of one of the concurrent other requests and records it.
func (s *faultServer) serveOther(c net.Conn, br *bufio.Reader, reqID, head string) {
	for !strings.HasSuffix(head, "\r\n\r\n") {
		line, err := br.ReadString('\n')
		head += line
		if err != nil {
			return
		}
	}
	a := &attempt{fault: Fault{Kind: "ok"}, reqID: reqID, head: head, at: time.Now()}
	if readDecoded(br, -1, a, &s.mu) {
		a.acked = true
	}
	s.mu.Lock()
	s.others = append(s.others, a)
	s.mu.Unlock()
	fmt.Fprintf(c, "HTTP/1.1 200 X\r\nContent-Length: 0\r\nConnection: close\r\n\r\n")
}

func (s *faultServer) close() {
	s.ln.Close()
}

// closeAll ends whatever connection handlers are still waiting for more input.
func (s *faultServer) closeAll() {
	s.ln.Close()
	s.mu.Lock()
	defer s.mu.Unlock()
	for _, c := range s.conns {
		c.Close()
	}
}

var (
	overheadMu sync.Mutex
	overheads  = map[int]int{}
)

// framingOverhead measures how many bytes the serialised response of the given status is longer than its
// body when the body is written in one piece of between 256 and 4095 bytes (one healthy upload of 1000 bytes).
func framingOverhead(status int) (int, error) {
	overheadMu.Lock()
	defer overheadMu.Unlock()
	if v, ok := overheads[status]; ok {
		return v, nil
	}
	probe := Case{Status: status, Size: 1000, PausesMs: []int{0}, Script: []Fault{{Kind: "ok"}}}
	srv := newFaultServer(probe.Script)
	defer srv.close()
	tr := &http.Transport{}
	defer tr.CloseIdleConnections()
	client := &http.Client{Transport: tr, Timeout: 15 * time.Second}
	endUser, _ := http.NewRequest("GET", "http://c06.example/", nil)
	fw, err := utils.NewResponseForwarder(client, "http://"+srv.ln.Addr().String()+"/", "backend", "req-c06", endUser, nil)
	if err != nil {
		return 0, err
	}
	fw.Header().Set("Content-Type", "application/octet-stream")
	fw.Header().Set("X-C06", "reference")
	fw.WriteHeader(status)
	fw.Write(vh.Payload("probe", 1000))
	if err := fw.Close(); err != nil {
		return 0, err
	}
	srv.mu.Lock()
	defer srv.mu.Unlock()
	if len(srv.attempts) != 1 || !srv.attempts[0].acked {
		return 0, fmt.Errorf("probe upload was not received in one acknowledged attempt")
	}
	overheads[status] = len(srv.attempts[0].raw) - 1000
	return overheads[status], nil
}

func runCase(t vh.TB, c *Case) vh.Outcome {
	if c.AlignTotal > 0 {
		ov, err := framingOverhead(c.Status)
		if err != nil || c.AlignTotal-ov < 256 || c.AlignTotal-ov > 4095 {
			return vh.Outcome{Inconclusive: fmt.Sprintf("could not measure the framing overhead: %v %v", ov, err)}
		}
		c.Size = c.AlignTotal - ov
	}
	o := vh.Outcome{NonTrivial: c.Script[0].Kind != "ok"}
	if c.AlignTotal > 0 {
		o.Classes = append(o.Classes, "serialised-length-aligned-to-replay-limit")
	}
	for i, f := range c.Script {
		if i < 3 && f.Kind != "ok" {
			cl := f.Kind
			if f.Drain {
				cl += "+drain"
			}
			o.Classes = append(o.Classes, cl)
		}
	}
	switch {
	case c.Size > 4200:
		o.Classes = append(o.Classes, "size>4200")
	case c.Size >= 3800:
		o.Classes = append(o.Classes, "size~4096")
	default:
		o.Classes = append(o.Classes, "size<3800")
	}
	srv := newFaultServer(c.Script)
	defer srv.close()
	tr := &http.Transport{MaxIdleConnsPerHost: 2, IdleConnTimeout: 5 * time.Second}
	defer tr.CloseIdleConnections()
	client := &http.Client{Transport: tr, Timeout: 15 * time.Second}
	endUser, _ := http.NewRequest("GET", "http://c06.example/", nil)
	body := vh.Payload(fmt.Sprint("c06-", c.Size), c.Size)

	type res struct {
		closeErr error
		writeErr error
	}
	done := make(chan res, 1)
	go func() {
		var r res
		fw, err := utils.NewResponseForwarder(client, "http://"+srv.ln.Addr().String()+"/", "backend", "req-c06", endUser, nil)
		if err != nil {
			r.closeErr = err
			done <- r
			return
		}
		fw.Header().Set("Content-Type", "application/octet-stream")
		fw.Header().Set("X-C06", "reference")
		fw.WriteHeader(c.Status)
		rest := body
		for i := 0; len(rest) > 0; i++ {
			n := len(rest)
			if i < len(c.Segments) && c.Segments[i] < n {
				n = c.Segments[i]
			}
			if p := c.PausesMs[i%len(c.PausesMs)]; p > 0 {
				time.Sleep(time.Duration(p) * time.Millisecond)
			}
			if _, err := fw.Write(rest[:n]); err != nil {
				r.writeErr = err
				break
			}
			rest = rest[n:]
		}
		r.closeErr = fw.Close()
		done <- r
	}()
	// other requests' responses are uploaded through the same package while this one is being (re)tried
	var owg sync.WaitGroup
	for k := 0; k < c.Others; k++ {
		k := k
		owg.Add(1)
		go func() {
			defer owg.Done()
			time.Sleep(time.Duration(k) * 700 * time.Microsecond)
			id := fmt.Sprintf("req-c06-other-%d", k)
			eu, _ := http.NewRequest("GET", "http://c06.example/other", nil)
			fw, err := utils.NewResponseForwarder(client, "http://"+srv.ln.Addr().String()+"/", "backend", id, eu, nil)
			if err != nil {
				return
			}
			fw.Header().Set("X-C06", id)
			fw.WriteHeader(200)
			fw.Write([]byte("body-of-" + id))
			fw.Close()
		}()
	}
	var r res
	select {
	case r = <-done:
	case <-time.After(40 * time.Second):
		o.Err = fmt.Errorf("the backend-facing handler is still blocked in Write/Close 40s after all upload attempts were answered (script %+v)", c.Script)
		return o
	}
	// the healthy uploads of the other requests finish first (the fault server is still serving them) ...
	ow := make(chan struct{})
	go func() { owg.Wait(); close(ow) }()
	select {
	case <-ow:
	case <-time.After(20 * time.Second):
		o.Err = fmt.Errorf("a concurrent healthy upload of another request did not finish within 20s")
		return o
	}
	// ... then stale transport goroutines and the fault server are left to settle
	time.Sleep(20 * time.Millisecond)
	tr.CloseIdleConnections()
	time.Sleep(5 * time.Millisecond)
	srv.closeAll()
	waitc := make(chan struct{})
	go func() { srv.wg.Wait(); close(waitc) }()
	select {
	case <-waitc:
	case <-time.After(3 * time.Second):
	}
	srv.mu.Lock()
	attempts := append([]*attempt(nil), srv.attempts...)
	others := append([]*attempt(nil), srv.others...)
	srv.mu.Unlock()
	if c.Others > 0 {
		o.Classes = append(o.Classes, "concurrent-other-uploads")
	}
	// every upload must carry the response of the request it is posted under
	seenOther := map[string]int{}
	for _, a := range others {
		seenOther[a.reqID]++
		want := "body-of-" + a.reqID
		var gotBody []byte
		gotHdr := ""
		if resp, err := http.ReadResponse(bufio.NewReader(bytes.NewReader(a.raw)), &http.Request{Method: "GET"}); err == nil {
			gotBody, _ = io.ReadAll(resp.Body)
			gotHdr = resp.Header.Get("X-C06")
		}
		if !a.acked || string(gotBody) != want || gotHdr != a.reqID {
			o.Err = fmt.Errorf("an upload posted under request id %q does not carry that request's response: it carries header X-C06=%q and body %q", a.reqID, gotHdr, head(gotBody))
			return o
		}
	}
	for k := 0; k < c.Others; k++ {
		id := fmt.Sprintf("req-c06-other-%d", k)
		if seenOther[id] != 1 {
			o.Err = fmt.Errorf("the response of the concurrent request %q was uploaded %d times under its own id (uploads seen: %v)", id, seenOther[id], seenOther)
			return o
		}
	}
	if len(attempts) > 3 {
		o.Err = fmt.Errorf("the forwarder made %d upload attempts (at most 3 allowed) (%s)", len(attempts), describe(srv, attempts))
		return o
	}
	anyAck := false
	for i, a := range attempts {
		srv.mu.Lock()
		raw := append([]byte(nil), a.raw...)
		acked := a.acked
		srv.mu.Unlock()
		if !acked {
			// a failed attempt that had already consumed >= 4096 bytes cannot be replayed: no retry may follow
			if len(raw) >= 4096+1 && i+1 < len(attempts) {
				o.Err = fmt.Errorf("attempt %d failed after %d bytes of the serialised response had been sent (more than the 4096-byte replay buffer) and yet attempt %d followed (%s)", i+1, len(raw), i+2, describe(srv, attempts))
				return o
			}
			continue
		}
		anyAck = true
		if err := checkComplete(raw, c.Status, body); err != nil {
			o.Err = fmt.Errorf("attempt %d of %d was acknowledged by the proxy but did not carry exactly the serialised response: %v (script %+v)", i+1, len(attempts), err, c.Script)
			return o
		}
		if i+1 < len(attempts) {
			o.Err = fmt.Errorf("attempt %d was acknowledged and yet the forwarder made another attempt (%s)", i+1, describe(srv, attempts))
			return o
		}
	}
	// Note: when every attempt is answered 5xx, Close() returns nil on the pinned tree (the last
	// error is the nil error of a completed round trip). The property only demands that the handler is
	// not left blocked, so this is counted as a class and not asserted.
	if !anyAck && r.closeErr == nil && r.writeErr == nil {
		o.Classes = append(o.Classes, "all-attempts-failed-but-close-returned-nil")
	}
	if !anyAck {
		o.Classes = append(o.Classes, "all-attempts-failed")
	}
	return o
}

func describe(srv *faultServer, attempts []*attempt) string {
	srv.mu.Lock()
	defer srv.mu.Unlock()
	var parts []string
	for i, a := range attempts {
		parts = append(parts, fmt.Sprintf("#%d conn=%d fault=%s received=%dB acked=%v replied=%d err=%v arrived=+%v answered=+%v head=%q", i+1, a.conn, a.fault.Kind, len(a.raw), a.acked, a.replied, a.rawErr,
			a.at.Sub(attempts[0].at).Round(10*time.Microsecond), a.end.Sub(attempts[0].at).Round(10*time.Microsecond), a.head))
	}
	return strings.Join(parts, "; ")
}

func checkComplete(raw []byte, status int, body []byte) error {
	br := bufio.NewReader(bytes.NewReader(raw))
	resp, err := http.ReadResponse(br, &http.Request{Method: "GET"})
	if err != nil {
		return fmt.Errorf("not a parsable response (%v), first bytes %q", err, head(raw))
	}
	if resp.StatusCode != status {
		return fmt.Errorf("status %d instead of %d, first bytes %q", resp.StatusCode, status, head(raw))
	}
	if resp.Header.Get("X-C06") != "reference" || resp.Header.Get("Content-Type") != "application/octet-stream" {
		return fmt.Errorf("headers altered: %v", resp.Header)
	}
	got, err := io.ReadAll(resp.Body)
	if err != nil {
		return fmt.Errorf("body not decodable after %d bytes: %v", len(got), err)
	}
	if !bytes.Equal(got, body) {
		return fmt.Errorf("body has %d bytes (hash %s), expected %d bytes (hash %s)", len(got), vh.HashBytes(got), len(body), vh.HashBytes(body))
	}
	if rest, _ := io.ReadAll(br); len(rest) > 0 {
		return fmt.Errorf("%d extra bytes after the end of the response: %q", len(rest), head(rest))
	}
	return nil
}

func head(b []byte) string {
	if len(b) > 60 {
		b = b[:60]
	}
	return string(b)
}

func TestPropUploadFaults(t *testing.T) {
	vh.Rapid(t, vh.Scale(800, 10000), func(rt *rapid.T) {
		c := genCase(rt)
		rec.Check(rt, &c, func() vh.Outcome { return runCase(rt, &c) })
	})
}

func TestReplay(t *testing.T) {
	var c Case
	ok, err := vh.ReplayCase("upload-faults", &c)
	if err != nil {
		t.Fatalf("INFRA: %v", err)
	}
	if !ok {
		t.Skip("no replay for this part")
	}
	for i := 0; i < 10*vh.ReplayRuns(); i++ {
		rec.Check(t, &c, func() vh.Outcome { return runCase(t, &c) })
	}
}
