// Package c17 checks property C17: the App Engine proxy enforces who may act as agent, user and admin.
package c17

import (
	"encoding/json"
	"fmt"
	"net/http"
	"sort"
	"strings"
	"sync"
	"testing"
	"time"

	"pgregory.net/rapid"
	"verif/harness/aerig"
	"verif/harness/vh"
)

var rec = vh.NewRecorder("C17", "access-control",
	"call histories of 6-30 steps over the three services of the App Engine proxy binary (default, agent, api) on a fake App Engine API: admin "+
		"calls (add/list/delete backend as header-admin, OAuth-admin, signed-in non-admin, OAuth non-admin, anonymous), agent calls (pending, "+
		"request, response with OAuth identity in {none, each registered agent, a stranger}, backend id in {each registered, unknown, empty}, "+
		"request id in {pending of that backend, pending of another backend, unknown, empty}) and end-user requests (owner, other user, "+
		"anonymous) on paths of user-owned and allUsers backends; oracle = reference access-control model (status class per call, registry and "+
		"store effects read back from the fake datastore); non-trivial = a call whose identity is valid for some backend but not for the named "+
		"one, or a request id belonging to another backend; distinct = SHA-256 of the history"+
		" Later additions: re-registration of a backend id for another agent account or end user, a fifth slot on the same prefix as B1 for another user, one fixed long URL answered without Cache-Control and then requested by another user, an OAuth caller whose user record has no e-mail address.")

func TestMain(m *testing.M) { vh.Main(m, rec) }

type Step struct {
	Kind      string `json:"kind"`    // add | list | delete | poll | fetch | respond | user
	Caller    string `json:"caller"`  // identity name
	Backend   string `json:"backend"` // backend slot name, "unknown" or ""
	Req       string `json:"req"`     // own | foreign | unknown | empty
	Path      string `json:"path,omitempty"`
	Variant   int    `json:"variant,omitempty"`   // add: 0 = the slot's own definition, 1 = another agent account, 2 = another end user
	Long      bool   `json:"long_url,omitempty"`  // user: a fixed URL (per case) of more than 250 bytes instead of a unique one
	Cacheable bool   `json:"cacheable,omitempty"` // respond: the posted response carries no Cache-Control
}

type Case struct {
	Steps []Step `json:"steps"`
	// SharedTrace: every end-user request of the case carries the same trace and correlation ids (one trace spans many
	// requests; a front end calling on behalf of several users; or simply a client's choice)
	SharedTrace bool `json:"shared_trace_ids,omitempty"`
}

// the world: four backend slots with fixed definitions
type bdef struct {
	id, agent, endUser, prefix string
}

var slots = map[string]bdef{
	"B1": {"b1", "agent1@example.com", "u1@example.com", "/one"},
	"B2": {"b2", "agent2@example.com", "u2@example.com", "/two"},
	"B3": {"b3", "agent3@example.com", "allUsers", "/shared"},
	"B4": {"b4", "agent1@example.com", "u2@example.com", "/four"}, // same agent account as B1
	"B5": {"b5", "agent2@example.com", "u2@example.com", "/one"},  // same prefix as B1, another end user
}

var (
	slotNames   = []string{"B1", "B2", "B3", "B4", "B5"}
	adminCaller = []string{"header-admin", "oauth-admin", "user-nonadmin", "oauth-nonadmin", "anonymous", "agent1"}
	agentCaller = []string{"agent1", "agent2", "agent3", "stranger", "none", "oauth-admin", "user-u1", "oauth-noemail"}
	userCaller  = []string{"u1", "u2", "anonymous", "u3"}
)

func identity(name string) aerig.Identity {
	switch name {
	case "header-admin":
		return aerig.Identity{Email: "boss@example.com", Admin: true}
	case "oauth-admin":
		return aerig.Identity{OAuthEmail: "root@example.com", OAuthAdmin: true}
	case "user-nonadmin":
		return aerig.Identity{Email: "u1@example.com"}
	case "oauth-nonadmin":
		return aerig.Identity{OAuthEmail: "nobody@example.com"}
	case "agent1", "agent2", "agent3":
		return aerig.Identity{OAuthEmail: name + "@example.com"}
	case "stranger":
		return aerig.Identity{OAuthEmail: "stranger@example.com"}
	case "oauth-noemail":
		return aerig.Identity{OAuthNoEmail: true} // a valid token without an e-mail address
	case "user-u1":
		return aerig.Identity{Email: "u1@example.com"} // signed in, but no OAuth identity
	case "u1", "u2", "u3":
		return aerig.Identity{Email: name + "@example.com"}
	}
	return aerig.Identity{}
}

func genCase(t *rapid.T) Case {
	var c Case
	// start with a populated registry most of the time
	for _, s := range slotNames {
		if rapid.IntRange(0, 3).Draw(t, "pre") != 0 {
			c.Steps = append(c.Steps, Step{Kind: "add", Caller: "header-admin", Backend: s})
		}
	}
	// generator-side view of which agent account each slot is currently registered for
	orig := map[string]string{"B1": "agent1", "B2": "agent2", "B3": "agent3", "B4": "agent1", "B5": "agent2"}
	alt := map[string]string{"B1": "agent2", "B2": "agent3", "B3": "agent1", "B4": "agent2", "B5": "agent3"}
	variant := map[string]int{}
	n := rapid.IntRange(6, 30).Draw(t, "n")
	for i := 0; i < n; i++ {
		if rapid.IntRange(0, 9).Draw(t, "cacheProbe") == 0 {
			// one user's cacheable GET of a long URL, then another user's GET of exactly the same URL
			first, second := "u1", "u2"
			fslot, fagent := "B1", orig["B1"]
			if rapid.Bool().Draw(t, "cacheSwap") {
				first, second, fslot, fagent = "u2", "u1", "B5", orig["B5"]
			}
			c.Steps = append(c.Steps,
				Step{Kind: "add", Caller: "header-admin", Backend: "B1"}, Step{Kind: "add", Caller: "header-admin", Backend: "B5"},
				Step{Kind: "user", Caller: first, Path: "/one", Long: true},
				Step{Kind: "poll", Caller: fagent, Backend: fslot, Req: "own"},
				Step{Kind: "respond", Caller: fagent, Backend: fslot, Req: "own", Cacheable: true},
				Step{Kind: "user", Caller: second, Path: "/one", Long: true})
			variant["B1"], variant["B5"] = 0, 0
			continue
		}
		if rapid.IntRange(0, 7).Draw(t, "rotationProbe") == 0 {
			// an agent account works, the administrator hands the backend id to another account, the old account tries again
			slot := rapid.SampledFrom(slotNames).Draw(t, "rslot")
			cur, nv := orig[slot], 1
			if variant[slot] == 1 {
				cur, nv = alt[slot], 0
			}
			kind := rapid.SampledFrom([]string{"poll", "fetch", "respond"}).Draw(t, "rkind")
			c.Steps = append(c.Steps,
				Step{Kind: "add", Caller: "header-admin", Backend: slot, Variant: variant[slot]},
				Step{Kind: "user", Caller: map[string]string{"B1": "u1", "B2": "u2", "B3": "u3", "B4": "u2", "B5": "u2"}[slot], Path: map[string]string{"B1": "/one", "B2": "/two", "B3": "/shared", "B4": "/four", "B5": "/one"}[slot]},
				Step{Kind: "poll", Caller: cur, Backend: slot, Req: "own"},
				Step{Kind: "add", Caller: rapid.SampledFrom([]string{"header-admin", "oauth-admin"}).Draw(t, "radmin"), Backend: slot, Variant: nv},
				Step{Kind: kind, Caller: cur, Backend: slot, Req: "own"})
			variant[slot] = nv
			continue
		}
		st := Step{Kind: rapid.SampledFrom([]string{"user", "user", "poll", "poll", "fetch", "fetch", "respond", "respond", "add", "list", "delete"}).Draw(t, "kind")}
		switch st.Kind {
		case "add", "delete":
			st.Caller = rapid.SampledFrom(adminCaller).Draw(t, "acaller")
			st.Backend = rapid.SampledFrom(slotNames).Draw(t, "slot")
			if st.Kind == "add" {
				st.Variant = rapid.SampledFrom([]int{0, 0, 1, 1, 2}).Draw(t, "variant")
				if (st.Caller == "header-admin" || st.Caller == "oauth-admin") && st.Variant != 2 {
					variant[st.Backend] = st.Variant
				}
			}
		case "list":
			st.Caller = rapid.SampledFrom(adminCaller).Draw(t, "acaller")
		case "poll", "fetch", "respond":
			st.Caller = rapid.SampledFrom(agentCaller).Draw(t, "gcaller")
			st.Backend = rapid.SampledFrom([]string{"B1", "B1", "B2", "B2", "B3", "B4", "unknown", ""}).Draw(t, "gslot")
			st.Req = rapid.SampledFrom([]string{"own", "own", "own", "foreign", "foreign", "unknown", "empty"}).Draw(t, "req")
		case "user":
			st.Caller = rapid.SampledFrom(userCaller).Draw(t, "ucaller")
			st.Path = rapid.SampledFrom([]string{"/one", "/two", "/shared", "/four", "/nowhere"}).Draw(t, "path")
		}
		c.Steps = append(c.Steps, st)
	}
	c.SharedTrace = rapid.Bool().Draw(t, "sharedTrace")
	return c
}

type pending struct {
	rid     string
	backend string // backend id
	user    string
	token   string
	done    chan *aerig.Response
	respBy  string // token of the response posted for it ("" if none)
}

var (
	rigMu  sync.Mutex
	theRig *aerig.Rig
	runCtr int
)

func getRig(t vh.TB) *aerig.Rig {
	rigMu.Lock()
	defer rigMu.Unlock()
	if theRig == nil {
		r, err := aerig.Start()
		if err != nil {
			t.Fatalf("INFRA: cannot start the App Engine proxy: %v", err)
		}
		theRig = r
	}
	return theRig
}

func closeRig() {
	rigMu.Lock()
	defer rigMu.Unlock()
	if theRig != nil {
		theRig.Stop()
		theRig = nil
	}
}

func agentHeaders(backendID, reqID string) http.Header {
	h := http.Header{}
	if backendID != "" {
		h.Set("X-Inverting-Proxy-Backend-ID", backendID)
	}
	if reqID != "" {
		h.Set("X-Inverting-Proxy-Request-ID", reqID)
	}
	return h
}

func runCase(t vh.TB, c *Case) vh.Outcome {
	r := getRig(t)
	o := vh.Outcome{}
	r.Fake.Reset()
	rigMu.Lock()
	runCtr++
	run := runCtr
	rigMu.Unlock()
	registry := map[string]bdef{} // by backend id
	var pend []*pending
	fail := func(i int, format string, args ...any) vh.Outcome {
		o.Err = fmt.Errorf("step %d %+v: %s", i, c.Steps[i], fmt.Sprintf(format, args...))
		return o
	}
	secrets := func() []string {
		var s []string
		for _, p := range pend {
			s = append(s, p.rid, p.token)
		}
		return s
	}
	leaks := func(body []byte) string {
		for _, s := range secrets() {
			if s != "" && strings.Contains(string(body), s) {
				return s
			}
		}
		return ""
	}
	isAdmin := func(caller string) bool { return caller == "header-admin" || caller == "oauth-admin" }
	// keepAlive makes a backend live the way its agent's poll does
	notLive := ""
	keepAlive := func(b bdef) {
		if !r.KeepAlive(b.id, b.agent) {
			notLive = b.id
		}
	}
	pendingOf := func(backendID string) []*pending {
		var out []*pending
		for _, p := range pend {
			if p.backend == backendID && p.respBy == "" {
				out = append(out, p)
			}
		}
		return out
	}
	defer func() {
		// let the waiting clients go
		for _, p := range pend {
			if p.respBy == "" {
				if b, ok := registry[p.backend]; ok {
					r.Do("agent", "POST", "/agent/response", agentHeaders(b.id, p.rid), []byte("HTTP/1.1 200 OK\r\nCache-Control: no-store\r\nContent-Length: 0\r\n\r\n"), aerig.Identity{OAuthEmail: b.agent}, 5*time.Second)
				}
			}
		}
	}()
	for i, st := range c.Steps {
		switch st.Kind {
		case "add":
			b := slots[st.Backend]
			switch st.Variant {
			case 1: // the same backend id handed to another agent account
				b.agent = map[string]string{"agent1@example.com": "agent2@example.com", "agent2@example.com": "agent3@example.com", "agent3@example.com": "agent1@example.com"}[b.agent]
				o.Classes = append(o.Classes, "re-registration-with-another-agent")
			case 2: // the same backend id handed to another end user
				b.endUser = map[string]string{"u1@example.com": "u2@example.com", "u2@example.com": "u1@example.com", "allUsers": "u1@example.com"}[b.endUser]
				o.Classes = append(o.Classes, "re-registration-with-another-end-user")
			}
			body, _ := json.Marshal(map[string]any{"id": b.id, "backendUser": b.agent, "endUser": b.endUser, "pathPrefixes": []string{b.prefix}})
			resp := r.Do("api", "POST", "/api/backends", nil, body, identity(st.Caller), 10*time.Second)
			if resp.Err != nil {
				return fail(i, "no answer: %v", resp.Err)
			}
			if isAdmin(st.Caller) {
				if resp.Status != 200 {
					return fail(i, "an administrator's add-backend call answered %d %q", resp.Status, resp.Body)
				}
				registry[b.id] = b
			} else if resp.Status != 403 {
				return fail(i, "add-backend by the non-administrator %q answered %d, expected 403", st.Caller, resp.Status)
			}
		case "delete":
			b := slots[st.Backend]
			resp := r.Do("api", "DELETE", "/api/backends/"+b.id, nil, nil, identity(st.Caller), 10*time.Second)
			if resp.Err != nil {
				return fail(i, "no answer: %v", resp.Err)
			}
			if isAdmin(st.Caller) {
				if resp.Status != 200 {
					return fail(i, "an administrator's delete-backend call answered %d %q", resp.Status, resp.Body)
				}
				delete(registry, b.id)
				// its stored requests are deleted with it
				for _, p := range pend {
					if p.backend == b.id && p.respBy == "" {
						p.respBy = "deleted"
					}
				}
			} else if resp.Status != 403 {
				return fail(i, "delete-backend by the non-administrator %q answered %d, expected 403", st.Caller, resp.Status)
			}
		case "list":
			resp := r.Do("api", "GET", "/api/backends", nil, nil, identity(st.Caller), 10*time.Second)
			if resp.Err != nil {
				return fail(i, "no answer: %v", resp.Err)
			}
			if !isAdmin(st.Caller) {
				if resp.Status != 403 {
					return fail(i, "list-backends by the non-administrator %q answered %d, expected 403", st.Caller, resp.Status)
				}
				if strings.Contains(string(resp.Body), "@example.com") {
					return fail(i, "a 403 answer discloses registry contents: %q", resp.Body)
				}
				break
			}
			var got []struct {
				ID string `json:"id"`
			}
			if resp.Status != 200 || json.Unmarshal(resp.Body, &got) != nil {
				return fail(i, "an administrator's list call answered %d %q", resp.Status, resp.Body)
			}
			var have, want []string
			for _, g := range got {
				have = append(have, g.ID)
			}
			for id := range registry {
				want = append(want, id)
			}
			sort.Strings(have)
			sort.Strings(want)
			if strings.Join(have, ",") != strings.Join(want, ",") {
				return fail(i, "registry is %v although only administrators' calls %v succeeded (a rejected call changed it, or an accepted one did not)", have, want)
			}
		case "poll", "fetch", "respond":
			backendID := ""
			if b, ok := slots[st.Backend]; ok {
				backendID = b.id
			} else if st.Backend == "unknown" {
				backendID = "no-such-backend"
			}
			reg, registered := registry[backendID]
			callerEmail := identity(st.Caller).OAuthEmail
			authorized := registered && callerEmail != "" && callerEmail == reg.agent
			if !authorized && callerEmail != "" {
				for _, b := range registry {
					if b.agent == callerEmail {
						o.NonTrivial = true
						o.Classes = append(o.Classes, "identity-valid-for-another-backend")
					}
				}
			}
			// choose the request id
			reqID := ""
			var target *pending
			switch st.Req {
			case "own":
				if ps := pendingOf(backendID); len(ps) > 0 {
					target = ps[0]
					reqID = target.rid
				} else {
					reqID = "no-such-request"
				}
			case "foreign":
				for _, p := range pend {
					if p.backend != backendID && p.respBy == "" {
						target = p
						reqID = p.rid
						break
					}
				}
				if target == nil {
					reqID = "no-such-request"
				} else {
					o.NonTrivial = true
					o.Classes = append(o.Classes, "foreign-request-id")
				}
			case "unknown":
				reqID = "no-such-request"
			}
			id := identity(st.Caller)
			switch st.Kind {
			case "poll":
				if authorized && len(pendingOf(backendID)) == 0 {
					keepAlive(reg) // an authorised poll with nothing pending would block for 30 s
					continue
				}
				resp := r.Do("agent", "GET", "/agent/pending", agentHeaders(backendID, ""), nil, id, 35*time.Second)
				if resp.Err != nil {
					return fail(i, "no answer: %v", resp.Err)
				}
				if !authorized {
					if resp.Status != 401 {
						return fail(i, "pending-list call by %q naming backend %q answered %d, expected 401", st.Caller, backendID, resp.Status)
					}
					if s := leaks(resp.Body); s != "" {
						return fail(i, "a 401 answer discloses %q", s)
					}
					break
				}
				var ids []string
				if resp.Status != 200 || json.Unmarshal(resp.Body, &ids) != nil {
					return fail(i, "authorised pending-list call answered %d %q", resp.Status, resp.Body)
				}
				own := map[string]bool{}
				for _, p := range pendingOf(backendID) {
					own[p.rid] = true
				}
				for _, got := range ids {
					if !own[got] {
						return fail(i, "the pending list of backend %s contains %q, which is not a pending request of that backend (own: %v)", backendID, got, own)
					}
				}
				if len(ids) != len(own) {
					return fail(i, "the pending list of backend %s has %d entries, %d requests are pending for it", backendID, len(ids), len(own))
				}
			case "fetch":
				resp := r.Do("agent", "GET", "/agent/request", agentHeaders(backendID, reqID), nil, id, 10*time.Second)
				if resp.Err != nil {
					return fail(i, "no answer: %v", resp.Err)
				}
				if !authorized {
					if resp.Status != 401 {
						return fail(i, "fetch by %q naming backend %q answered %d, expected 401", st.Caller, backendID, resp.Status)
					}
					if s := leaks(resp.Body); s != "" && s != reqID {
						return fail(i, "a 401 answer discloses %q", s)
					}
					break
				}
				switch {
				case reqID == "":
					if resp.Status != 400 {
						return fail(i, "fetch without request id answered %d, expected 400", resp.Status)
					}
				case target != nil && target.backend == backendID:
					if resp.Status != 200 || !strings.Contains(string(resp.Body), target.token) || resp.Header.Get("X-Inverting-Proxy-User-Id") != target.user {
						return fail(i, "fetch of the backend's own pending request answered %d (user %q), expected its stored bytes", resp.Status, resp.Header.Get("X-Inverting-Proxy-User-Id"))
					}
				default:
					if resp.Status != 404 {
						return fail(i, "fetch of request %q, which does not belong to backend %s, answered %d, expected 404", reqID, backendID, resp.Status)
					}
					if target != nil && strings.Contains(string(resp.Body), target.token) {
						return fail(i, "fetch disclosed the bytes of another backend's request")
					}
				}
			case "respond":
				tok := fmt.Sprintf("resp-%d-%d", run, i)
				cc := "Cache-Control: no-store\r\n"
				if st.Cacheable {
					cc = ""
					o.Classes = append(o.Classes, "cacheable-response")
				}
				wire := fmt.Sprintf("HTTP/1.1 200 OK\r\n%sX-Resp-Token: %s\r\nContent-Length: %d\r\n\r\n%s", cc, tok, len(tok), tok)
				resp := r.Do("agent", "POST", "/agent/response", agentHeaders(backendID, reqID), []byte(wire), id, 10*time.Second)
				if resp.Err != nil {
					return fail(i, "no answer: %v", resp.Err)
				}
				if !authorized {
					if resp.Status != 401 {
						return fail(i, "respond by %q naming backend %q answered %d, expected 401", st.Caller, backendID, resp.Status)
					}
				} else {
					switch {
					case reqID == "":
						if resp.Status != 400 {
							return fail(i, "respond without request id answered %d, expected 400", resp.Status)
						}
					case target != nil && target.backend == backendID:
						if resp.Status != 200 {
							return fail(i, "respond to the backend's own pending request answered %d %q", resp.Status, resp.Body)
						}
						target.respBy = tok
					default:
						if resp.Status != 404 {
							return fail(i, "respond under request id %q, which does not belong to backend %s, answered %d, expected 404", reqID, backendID, resp.Status)
						}
					}
				}
				// whatever happened: only the named backend's own request may have been touched
				for _, p := range pend {
					if p.respBy != "" {
						continue
					}
					if done, found := r.Fake.EntityBool(fmt.Sprintf("req:%q", p.backend), p.rid, "Completed"); found && done {
						return fail(i, "request %s of backend %s was marked completed by a call that was not an authorised response to it", p.rid, p.backend)
					}
					select {
					case cr := <-p.done:
						return fail(i, "the client of request %s (backend %s) received an answer (status %d, token %q) although no authorised response was posted for it", p.rid, p.backend, cr.Status, cr.Header.Get("X-Resp-Token"))
					default:
					}
				}
			}
		case "user":
			id := identity(st.Caller)
			// which backend should take it? (prefixes are disjoint between slots, but a re-registration for another end
			// user can give one user two backends on the same prefix: then either of them is a correct choice)
			var own, shared []bdef
			for _, b := range registry {
				if strings.HasPrefix(st.Path, b.prefix) {
					if b.endUser == id.Email && id.Email != "" {
						own = append(own, b)
					} else if b.endUser == "allUsers" {
						shared = append(shared, b)
					}
				}
			}
			cands := own
			if len(cands) == 0 {
				cands = shared
			}
			sort.Slice(cands, func(i, j int) bool { return cands[i].id < cands[j].id })
			var want *bdef
			for k := range cands {
				keepAlive(cands[k])
				want = &cands[0]
			}
			if len(cands) > 1 {
				o.Classes = append(o.Classes, "two-backends-of-one-user-on-one-prefix")
			}
			tok := fmt.Sprintf("user-%d-%d", run, i)
			p := &pending{token: tok, user: id.Email, done: make(chan *aerig.Response, 1)}
			ridCh := make(chan string, 1)
			go func() {
				hdr := http.Header{"X-Client-Token": {tok}}
				if c.SharedTrace {
					hdr.Set("X-Cloud-Trace-Context", "105445aa7843bc8bf206b12000100000/1;o=1")
					hdr.Set("Traceparent", "00-105445aa7843bc8bf206b12000100000-00f067aa0ba902b7-01")
					hdr.Set("X-Request-Id", "105445aa7843bc8bf206b12000100000")
				}
				uri := fmt.Sprintf("%s/%s?tok=%s", st.Path, tok, tok)
				if st.Long {
					uri = fmt.Sprintf("%s/long-%d?q=%s", st.Path, run, strings.Repeat("a", 260))
				}
				resp := r.Do("default", "GET", uri, hdr, nil, id, 45*time.Second)
				ridCh <- resp.ReqID
				p.done <- resp
			}()
			// either an immediate refusal, or the request shows up in exactly one backend's store
			deadline := time.Now().Add(10 * time.Second)
			stored := ""
			var early *aerig.Response
			for time.Now().Before(deadline) && stored == "" && early == nil {
				for _, k := range r.Fake.Kinds() {
					if strings.HasPrefix(k, "req:") {
						for _, name := range r.Fake.EntityNames(k) {
							known := false
							for _, q := range pend {
								if q.rid == name {
									known = true
								}
							}
							if !known {
								stored = k
								p.rid = name
							}
						}
					}
				}
				select {
				case early = <-p.done:
				default:
					time.Sleep(2 * time.Millisecond)
				}
			}
			if early != nil {
				if early.Err != nil {
					return fail(i, "no answer: %v", early.Err)
				}
				if id.Email == "" {
					if early.Status != 401 {
						return fail(i, "an anonymous end-user request answered %d, expected 401", early.Status)
					}
				} else if want != nil && notLive != "" {
					o.Inconclusive = "the proxy did not record the harness agent's poll of backend " + notLive
					return o
				} else if want != nil {
					return fail(i, "user %s on %s should be routed to backend %s (registered for %s) but was answered %d at once", id.Email, st.Path, want.id, want.endUser, early.Status)
				} else if early.Status != 404 {
					return fail(i, "user %s on %s matches no backend registered for that user or allUsers; answered %d, expected 404", id.Email, st.Path, early.Status)
				}
				break
			}
			if stored == "" {
				return fail(i, "the end-user request was neither refused nor stored within 10s")
			}
			bid := strings.Trim(strings.TrimPrefix(stored, "req:"), `"`)
			b, ok := registry[bid]
			if !ok || (b.endUser != id.Email && b.endUser != "allUsers") || id.Email == "" {
				return fail(i, "the request of user %q on %s was routed to backend %q, which is registered for %q", id.Email, st.Path, bid, b.endUser)
			}
			okCand := false
			for _, cb := range cands {
				okCand = okCand || cb.id == bid
			}
			if !okCand {
				return fail(i, "the request of user %q on %s was routed to backend %q, expected one of %v", id.Email, st.Path, bid, cands)
			}
			p.backend = bid
			pend = append(pend, p)
			o.Classes = append(o.Classes, "user-request-routed")
		}
		if err := r.Health(); err != nil {
			o.Err = err
			closeRig()
			return o
		}
	}
	// every client whose request was answered by an authorised agent received exactly that response
	for _, p := range pend {
		if p.respBy == "" || p.respBy == "deleted" {
			continue
		}
		select {
		case cr := <-p.done:
			if cr.Err != nil || cr.Status != 200 || cr.Header.Get("X-Resp-Token") != p.respBy || string(cr.Body) != p.respBy {
				o.Err = fmt.Errorf("the client of request %s received status %d token %q, the authorised agent posted %q under its id (%v)", p.rid, cr.Status, cr.Header.Get("X-Resp-Token"), p.respBy, cr.Err)
				return o
			}
		case <-time.After(10 * time.Second):
			o.Err = fmt.Errorf("the client of request %s did not receive the response posted under its id within 10s", p.rid)
			o.TimedOut = true
			return o
		}
	}
	return o
}

func TestPropAccessControl(t *testing.T) {
	defer closeRig()
	vh.Rapid(t, vh.Scale(100, 2000), func(rt *rapid.T) {
		c := genCase(rt)
		rec.Check(rt, &c, func() vh.Outcome { return vh.Confirm(func(int) vh.Outcome { return runCase(rt, &c) }) })
	})
}

func TestReplay(t *testing.T) {
	defer closeRig()
	var c Case
	ok, err := vh.ReplayCase("access-control", &c)
	if err != nil {
		t.Fatalf("INFRA: %v", err)
	}
	if !ok {
		t.Skip("no replay for this part")
	}
	for i := 0; i < vh.ReplayRuns(); i++ {
		rec.Check(t, &c, func() vh.Outcome { return vh.Confirm(func(int) vh.Outcome { return runCase(t, &c) }) })
	}
}
