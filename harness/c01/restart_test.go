package c01

import (
	"fmt"
	"net"
	"strings"
	"sync"
	"testing"
	"time"

	"pgregory.net/rapid"
	"verif/harness/vh"
)

// Second part: the proxy process is replaced (killed and started again on the same port) while requests
// are at the backend. The agent survives and uploads the responses of the old requests to the new proxy,
// where other clients are waiting by then.
var recR = vh.NewRecorder("C01", "proxy-replaced",
	"a stand-alone proxy on a fixed port plus an agent; 0-3 requests complete, 1-8 requests are held at the backend for "+
		"0.8-2s, the proxy process is killed and a new one started on the same port, and 1-12 new clients send requests 0-300ms "+
		"later (backend latency 0-2.5s) so that the agent uploads the responses of the old requests while they wait; oracle: every response a client receives "+
		"carries the token of that client's own request in header and body; non-trivial = the new proxy rejected at least one "+
		"upload for a request it does not know while new clients were served; distinct = SHA-256 of the canonical case")

type RestartCase struct {
	Warm         int `json:"completed_before"`
	Old          int `json:"at_backend_when_proxy_is_replaced"`
	New          int `json:"clients_of_the_new_proxy"`
	OldLatencyMs int `json:"old_backend_latency_ms"`
	NewDelayMs   int `json:"new_clients_start_after_ms"`
	NewLatencyMs int `json:"new_backend_latency_ms"`
}

func genRestart(t *rapid.T) RestartCase {
	return RestartCase{
		Warm:         rapid.IntRange(0, 3).Draw(t, "warm"),
		Old:          rapid.IntRange(1, 8).Draw(t, "old"),
		New:          rapid.IntRange(1, 12).Draw(t, "new"),
		OldLatencyMs: rapid.SampledFrom([]int{800, 1200, 2000}).Draw(t, "oldLatency"),
		NewDelayMs:   rapid.SampledFrom([]int{0, 50, 300}).Draw(t, "newDelay"),
		NewLatencyMs: rapid.SampledFrom([]int{0, 500, 1500, 2500}).Draw(t, "newLatency"),
	}
}

func startServerOn(port int) (*vh.Proc, error) {
	var last error
	for i := 0; i < 50; i++ {
		p, err := vh.StartProc("server", vh.Bin("server"), []string{fmt.Sprintf("--port=%d", port)})
		if err != nil {
			return nil, err
		}
		if _, err := p.WaitLine("Listening on ", 10*time.Second); err == nil {
			return p, nil
		} else {
			last = fmt.Errorf("%v: %s", err, p.Tail(3))
		}
		p.Stop()
		time.Sleep(100 * time.Millisecond)
	}
	return nil, last
}

func runRestart(c *RestartCase) (o vh.Outcome) {
	run := nonce.Add(1)
	var mu sync.Mutex
	atBackend := map[string]int{}
	backend := vh.NewRawBackend(func(rq *vh.RawRequest, conn net.Conn) bool {
		tok := ""
		if v := rq.Values(vh.TokenHeader); len(v) > 0 {
			tok = v[0]
		}
		mu.Lock()
		atBackend[tok]++
		mu.Unlock()
		switch {
		case strings.HasPrefix(tok, "old-"):
			time.Sleep(time.Duration(c.OldLatencyMs) * time.Millisecond)
		case strings.HasPrefix(tok, "new-"):
			time.Sleep(time.Duration(c.NewLatencyMs) * time.Millisecond)
		}
		body := "response-for-" + tok
		fmt.Fprintf(conn, "HTTP/1.1 200 OK\r\n%s: %s\r\nContent-Length: %d\r\n\r\n%s", vh.TokenHeader, tok, len(body), body)
		return true
	})
	defer backend.Close()
	port := vh.FreePort()
	addr := fmt.Sprintf("127.0.0.1:%d", port)
	own := vh.BackendIDFor("http://" + addr + "/")
	foreign := func(l string) bool { return strings.Contains(l, "Received new backend") && !strings.Contains(l, own) }
	srv1, err := startServerOn(port)
	if err != nil {
		o.Inconclusive = "cannot start the proxy: " + err.Error()
		return
	}
	defer srv1.Stop()
	srv1.Watch("foreign-agent", foreign)
	meta := vh.NewFakeMeta()
	defer meta.Close()
	agent, err := vh.StartAgent(meta, "http://"+addr+"/", backend.Addr, nil)
	if err != nil {
		o.Inconclusive = "cannot start the agent: " + err.Error()
		return
	}
	defer agent.Stop()
	get := func(tok string, timeout time.Duration) (*vh.RawResponse, error) {
		return vh.RawRoundTrip(addr, []byte(fmt.Sprintf("GET /%s HTTP/1.1\r\nHost: c01.example\r\n%s: %s\r\n\r\n", tok, vh.TokenHeader, tok)), "GET", timeout)
	}
	up := false
	for deadline := time.Now().Add(30 * time.Second); time.Now().Before(deadline); time.Sleep(50 * time.Millisecond) {
		if r, err := get(fmt.Sprintf("warm-%d", run), 3*time.Second); err == nil && r.Status == 200 {
			up = true
			break
		}
	}
	if !up {
		o.Inconclusive = "proxy and agent did not come up: " + agent.Tail(5)
		return
	}
	check := func(tok string, r *vh.RawResponse) error {
		ht, body := r.Header.Get(vh.TokenHeader), string(r.Body)
		foreign := (ht != "" && ht != tok) || (strings.HasPrefix(body, "response-for-") && body != "response-for-"+tok)
		if foreign || (r.Status == 200 && (ht != tok || body != "response-for-"+tok)) {
			return fmt.Errorf("the client of request %s received status %d with token %q and body %q: not the response produced for its own request",
				tok, r.Status, ht, prefix(r.Body))
		}
		return nil
	}
	for i := 0; i < c.Warm; i++ {
		tok := fmt.Sprintf("pre-%d-%d", run, i)
		r, err := get(tok, 10*time.Second)
		if err != nil {
			o.Inconclusive = "request before the restart failed: " + err.Error()
			return
		}
		if err := check(tok, r); err != nil {
			o.Err = err
			return
		}
	}
	type res struct {
		tok string
		r   *vh.RawResponse
		err error
	}
	oldRes := make(chan res, c.Old)
	for i := 0; i < c.Old; i++ {
		tok := fmt.Sprintf("old-%d-%d", run, i)
		go func() {
			r, err := get(tok, 10*time.Second)
			oldRes <- res{tok, r, err}
		}()
	}
	allAt := false
	for deadline := time.Now().Add(10 * time.Second); time.Now().Before(deadline); time.Sleep(5 * time.Millisecond) {
		mu.Lock()
		n := 0
		for k := range atBackend {
			if strings.HasPrefix(k, "old-") {
				n++
			}
		}
		mu.Unlock()
		if n == c.Old {
			allAt = true
			break
		}
	}
	if !allAt {
		o.Inconclusive = "the old requests did not all reach the backend within 10s"
		return
	}
	if srv1.Watched("foreign-agent") > 0 {
		o.Inconclusive = "a foreign agent polled the proxy"
		return
	}
	// replace the proxy process
	srv1.Stop()
	srv2, err := startServerOn(port)
	if err != nil {
		o.Inconclusive = "cannot restart the proxy on the same port: " + err.Error()
		return
	}
	defer srv2.Stop()
	srv2.Watch("foreign-agent", foreign)
	srv2.Watch("unknown-upload", func(l string) bool { return strings.Contains(l, "Could not find pending request") })
	time.Sleep(time.Duration(c.NewDelayMs) * time.Millisecond)
	newRes := make(chan res, c.New)
	for i := 0; i < c.New; i++ {
		tok := fmt.Sprintf("new-%d-%d", run, i)
		go func() {
			r, err := get(tok, 20*time.Second)
			newRes <- res{tok, r, err}
		}()
	}
	served := 0
	var firstErr error
	for i := 0; i < c.New; i++ {
		x := <-newRes
		if x.err != nil || x.r == nil {
			continue
		}
		served++
		if err := check(x.tok, x.r); err != nil && firstErr == nil {
			firstErr = fmt.Errorf("after the proxy process was replaced (%d requests were at the backend, %d new clients): %v", c.Old, c.New, err)
		}
	}
	for i := 0; i < c.Old; i++ {
		x := <-oldRes
		if x.err != nil || x.r == nil || x.r.Status == 0 {
			continue
		}
		if err := check(x.tok, x.r); err != nil && firstErr == nil {
			firstErr = err
		}
	}
	if srv2.Watched("foreign-agent") > 0 {
		o.Inconclusive = "a foreign agent polled the proxy"
		return
	}
	if firstErr != nil {
		o.Err = firstErr
		return
	}
	for _, p := range []*vh.Proc{srv2, agent} {
		if fl := p.Flags(); len(fl) > 0 {
			o.Err = fmt.Errorf("%s reported: %s", p.Name, fl[0])
			return
		}
	}
	// the responses of the old requests are uploaded to the new proxy once the backend has produced them
	for deadline := time.Now().Add(time.Duration(c.OldLatencyMs)*time.Millisecond + 3*time.Second); time.Now().Before(deadline) && srv2.Watched("unknown-upload") == 0; time.Sleep(20 * time.Millisecond) {
	}
	o.NonTrivial = srv2.Watched("unknown-upload") > 0 && served > 0
	if o.NonTrivial {
		o.Classes = append(o.Classes, "upload-for-unknown-request-rejected-by-new-proxy")
	}
	if c.NewDelayMs+c.NewLatencyMs > c.OldLatencyMs {
		o.Classes = append(o.Classes, "new-clients-waiting-when-old-responses-arrive")
	}
	if served == c.New {
		o.Classes = append(o.Classes, "all-new-clients-served")
	}
	return
}

func TestPropProxyReplaced(t *testing.T) {
	vh.Rapid(t, vh.Scale(6, 60), func(rt *rapid.T) {
		c := genRestart(rt)
		recR.Check(rt, &c, func() vh.Outcome { return runRestart(&c) })
	})
}

func TestReplayProxyReplaced(t *testing.T) {
	var c RestartCase
	ok, err := vh.ReplayCase("proxy-replaced", &c)
	if err != nil {
		t.Fatalf("INFRA: %v", err)
	}
	if !ok {
		t.Skip("no replay for this part")
	}
	for i := 0; i < vh.ReplayRuns(); i++ {
		recR.Check(t, &c, func() vh.Outcome { return runRestart(&c) })
	}
}
