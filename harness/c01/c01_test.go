// Package c01 checks property C01: every client gets the response to its own request.
package c01

import (
	"bytes"
	"fmt"
	"net"
	"strings"
	"sync"
	"sync/atomic"
	"testing"
	"time"

	"pgregory.net/rapid"
	"verif/harness/vh"
)

var rec = vh.NewRecorder("C01", "concurrent-clients",
	"sets of 2-64 (thorough: up to 256) concurrent client requests with generated start offsets, request/response body sizes "+
		"(0..1MiB, around 4096), backend latencies 0-100ms (so completion order is a generated permutation of arrival order), "+
		"statuses and framings, some clients giving up (closing their connection) after 1-200ms while others arrive later, in a third of the cases groups of clients sending identical values in 1-3 request-correlation header fields (X-Request-Id, Idempotency-Key, Traceparent, Cookie, ...), against server+agent -race binaries run with generated GOMAXPROCS; every request carries a unique "+
		"token, the backend echoes it into status-independent places plus a per-invocation nonce; non-trivial = at least 2 requests "+
		"measured simultaneously in flight at the backend; distinct = SHA-256 of the canonical case")

func TestMain(m *testing.M) { vh.Main(m, rec, recR) }

type Req struct {
	Method    string `json:"method"`
	ReqSize   int    `json:"req_size"`
	RespSize  int    `json:"resp_size"`
	LatencyMs int    `json:"latency_ms"`
	StartMs   int    `json:"start_ms"`
	Status    int    `json:"status"`
	Chunked   bool   `json:"chunked"`
	AbandonMs int    `json:"abandon_after_ms,omitempty"` // >0: the client gives up (closes its connection) after this long
	// AbandonMidBody (with AbandonMs > 0): instead of after a fixed time the client gives up once it has received the first
	// bytes of the response body; the backend streams the rest of a large chunked body (and its trailers) after a pause.
	AbandonMidBody bool `json:"abandon_mid_body,omitempty"`
	MidBodyTail    int  `json:"mid_body_tail_bytes,omitempty"`
	// Group > 0: this client sends the case's correlation headers with the value of its group, i.e. the same values as
	// every other client of the group (what a retrying client library, a shared upstream or a browser session does)
	Group int `json:"corr_group,omitempty"`
}

type Case struct {
	Procs int   `json:"gomaxprocs"`
	Reqs  []Req `json:"reqs"`
	// Corr: names of request-correlation header fields that the clients of one group send with identical values
	Corr []string `json:"corr_headers,omitempty"`
}

var corrNames = []string{"X-Request-Id", "X-Request-ID", "X-Correlation-Id", "Request-Id", "Idempotency-Key", "Traceparent",
	"X-Cloud-Trace-Context", "X-Amzn-Trace-Id", "Cookie", "Authorization", "If-None-Match", "X-Forwarded-For", "X-Session-Id"}

var sizes = []int{0, 1, 100, 4095, 4096, 4097, 65536}

func genCase(t *rapid.T) Case {
	var c Case
	c.Procs = rapid.SampledFrom([]int{1, 2, 4, 16}).Draw(t, "gomaxprocs")
	maxK := 64
	if vh.Thorough() && rapid.IntRange(0, 9).Draw(t, "big") == 0 {
		maxK = 256
	}
	k := rapid.IntRange(2, maxK).Draw(t, "k")
	big, midBody := 0, 0
	abandoning := rapid.IntRange(0, 2).Draw(t, "abandoning") == 0
	for i := 0; i < k; i++ {
		r := Req{
			Method:    rapid.SampledFrom([]string{"GET", "POST", "POST", "PUT"}).Draw(t, "method"),
			RespSize:  rapid.SampledFrom(sizes).Draw(t, "respSize"),
			LatencyMs: rapid.SampledFrom([]int{0, 0, 1, 5, 20, 100, 300}).Draw(t, "latency"),
			StartMs:   rapid.SampledFrom([]int{0, 0, 0, 1, 3, 10, 60, 150, 250}).Draw(t, "start"),
			Status:    rapid.SampledFrom([]int{200, 200, 201, 404, 500, 503}).Draw(t, "status"),
			Chunked:   rapid.Bool().Draw(t, "chunked"),
		}
		if r.Method != "GET" {
			r.ReqSize = rapid.SampledFrom(sizes).Draw(t, "reqSize")
		}
		if abandoning && rapid.IntRange(0, 2).Draw(t, "abandon") == 0 {
			// a client that gives up while its request is somewhere on its way: listed, fetched, at the backend or being answered
			r.AbandonMs = rapid.SampledFrom([]int{1, 10, 30, 100, 200}).Draw(t, "abandonMs")
			r.LatencyMs = rapid.SampledFrom([]int{20, 100, 300, 300}).Draw(t, "abandonLatency")
			if midBody < 3 && rapid.IntRange(0, 2).Draw(t, "midBody") == 0 {
				midBody++
				r.AbandonMidBody, r.Chunked, r.LatencyMs = true, true, 0
				// the backend sends all but the last MidBodyTail bytes, pauses, and then sends the tail and the trailers
				r.RespSize = rapid.SampledFrom([]int{16384, 8192, 40000, 300000}).Draw(t, "midBodyFirst")
				r.MidBodyTail = rapid.SampledFrom([]int{20000, 8192, 65536}).Draw(t, "midBodyTail")
				r.RespSize += r.MidBodyTail
			}
		}
		if big < 2 && rapid.IntRange(0, 30).Draw(t, "mib") == 0 {
			r.RespSize = 1 << 20
			if r.Method != "GET" {
				r.ReqSize = 1 << 20
			}
			big++
		}
		c.Reqs = append(c.Reqs, r)
	}
	if rapid.IntRange(0, 2).Draw(t, "corr") == 0 {
		c.Corr = rapid.SliceOfNDistinct(rapid.SampledFrom(corrNames), 1, 3, rapid.ID[string]).Draw(t, "corrNames")
		ngroups := rapid.IntRange(1, 3).Draw(t, "ngroups")
		for i := range c.Reqs {
			if rapid.IntRange(0, 3).Draw(t, "inGroup") != 0 {
				c.Reqs[i].Group = rapid.IntRange(1, ngroups).Draw(t, "group")
				if c.Reqs[i].LatencyMs < 20 && c.Reqs[i].AbandonMs == 0 {
					c.Reqs[i].LatencyMs = rapid.SampledFrom([]int{20, 100, 300}).Draw(t, "corrLatency")
				}
			}
		}
	}
	return c
}

var (
	mu     sync.Mutex
	stacks = map[int]*vh.E2E{}
	nonce  atomic.Int64
)

func stackFor(t vh.TB, procs int) *vh.E2E {
	mu.Lock()
	defer mu.Unlock()
	if e := stacks[procs]; e != nil {
		return e
	}
	e, err := vh.NewE2E(nil, fmt.Sprintf("GOMAXPROCS=%d", procs))
	if err != nil {
		t.Fatalf("INFRA: cannot start stack: %v", err)
	}
	stacks[procs] = e
	return e
}

func cleanup() {
	mu.Lock()
	defer mu.Unlock()
	for k, e := range stacks {
		e.Close()
		delete(stacks, k)
	}
}

type result struct {
	resp  *vh.RawResponse
	err   error
	nonce string
}

func runCase(t vh.TB, c *Case) vh.Outcome {
	return vh.Confirm(func(mult int) vh.Outcome {
		st := stackFor(t, c.Procs).Stack
		return st.Discount(runOnce(t, c, mult))
	})
}

func runOnce(t vh.TB, c *Case, mult int) vh.Outcome {
	e := stackFor(t, c.Procs)
	o := vh.Outcome{}
	e.Backend.MaxIn.Store(0)
	toks := make([]string, len(c.Reqs))
	var backendErrs sync.Map
	for i := range c.Reqs {
		i := i
		r := c.Reqs[i]
		tok := e.NewToken()
		toks[i] = tok
		e.Handle(tok, func(rq *vh.RawRequest, conn net.Conn) bool {
			// the backend itself verifies that it was handed this client's request
			wantBody := append([]byte(tok+"|"), vh.Payload("req-"+tok, r.ReqSize)...)
			if r.Method == "GET" {
				wantBody = nil
			}
			if !strings.Contains(rq.Target, tok) || !bytes.Equal(rq.Body, wantBody) {
				backendErrs.Store(tok, fmt.Sprintf("backend received target %q with a body of %d bytes (hash %s) under token %s; expected %d bytes (hash %s)",
					rq.Target, len(rq.Body), vh.HashBytes(rq.Body), tok, len(wantBody), vh.HashBytes(wantBody)))
			}
			if r.LatencyMs > 0 {
				time.Sleep(time.Duration(r.LatencyMs) * time.Millisecond)
			}
			n := fmt.Sprintf("n%d", nonce.Add(1))
			body := append([]byte(tok+"|"+n+"|"), vh.Payload("resp-"+tok, r.RespSize)...)
			var b bytes.Buffer
			fmt.Fprintf(&b, "HTTP/1.1 %d X\r\nX-Echo-Token: %s\r\nX-Nonce: %s\r\nSet-Cookie: tok=%s\r\n", r.Status, tok, n, tok)
			if r.AbandonMidBody {
				// the head and the first kilobyte now; the rest and the trailers after the client has had time to leave
				b.WriteString("Trailer: X-Trailer-Token\r\nTransfer-Encoding: chunked\r\n\r\n")
				head := len(body) - r.MidBodyTail
				if head < 1 {
					head = 1
				}
				enc := vh.ChunkedEncode(body, []int{head}, []vh.HeaderField{{Name: "X-Trailer-Token", Value: tok}, {Name: "X-Trailer-B", Value: n}})
				first := len(fmt.Sprintf("%x\r\n", head)) + head + 2
				b.Write(enc[:first])
				conn.Write(b.Bytes())
				time.Sleep(150 * time.Millisecond)
				conn.Write(enc[first:])
				return true
			}
			if r.Chunked {
				b.WriteString("Trailer: X-Trailer-Token\r\nTransfer-Encoding: chunked\r\n\r\n")
				b.Write(vh.ChunkedEncode(body, []int{1, 4096}, []vh.HeaderField{{Name: "X-Trailer-Token", Value: tok}}))
			} else {
				fmt.Fprintf(&b, "Content-Length: %d\r\n\r\n", len(body))
				b.Write(body)
			}
			conn.Write(b.Bytes())
			return true
		})
	}
	results := make([]result, len(c.Reqs))
	var wg sync.WaitGroup
	start := make(chan struct{})
	for i := range c.Reqs {
		i := i
		r := c.Reqs[i]
		wg.Add(1)
		go func() {
			defer wg.Done()
			<-start
			if r.StartMs > 0 {
				time.Sleep(time.Duration(r.StartMs) * time.Millisecond)
			}
			var b bytes.Buffer
			fmt.Fprintf(&b, "%s /c01/%s?tok=%s HTTP/1.1\r\nHost: c01.example\r\nAccept-Encoding: identity\r\n%s: %s\r\n", r.Method, toks[i], toks[i], vh.TokenHeader, toks[i])
			for _, name := range c.Corr {
				v := fmt.Sprintf("corr-%s-g%d", toks[0], r.Group)
				if r.Group == 0 {
					v = "corr-" + toks[i]
				}
				if name == "Cookie" {
					v = "sid=" + v
				}
				fmt.Fprintf(&b, "%s: %s\r\n", name, v)
			}
			if r.Method != "GET" {
				body := append([]byte(toks[i]+"|"), vh.Payload("req-"+toks[i], r.ReqSize)...)
				fmt.Fprintf(&b, "Content-Length: %d\r\n\r\n", len(body))
				b.Write(body)
			} else {
				b.WriteString("\r\n")
			}
			if r.AbandonMs > 0 {
				if c, err := net.DialTimeout("tcp", e.Stack.ProxyAddr, 5*time.Second); err == nil {
					c.Write(b.Bytes())
					if r.AbandonMidBody {
						// leave once everything the backend sends before its pause is there (the tail and the trailers follow
						// 150 ms later): relaying the tail then fails on the proxy's last write to this client
						c.SetReadDeadline(time.Now().Add(20 * time.Second))
						want := r.RespSize - r.MidBodyTail
						got := 0
						buf := make([]byte, 32768)
						for got < want {
							n, rerr := c.Read(buf)
							got += n
							if rerr != nil {
								break
							}
						}
					} else {
						time.Sleep(time.Duration(r.AbandonMs) * time.Millisecond)
					}
					c.Close()
				}
				return
			}
			resp, err := vh.RawRoundTrip(e.Stack.ProxyAddr, b.Bytes(), r.Method, time.Duration(mult)*40*time.Second)
			results[i] = result{resp: resp, err: err}
		}()
	}
	close(start)
	wg.Wait()
	maxIn := e.Backend.MaxIn.Load()
	o.NonTrivial = maxIn >= 2
	o.Classes = append(o.Classes, fmt.Sprintf("gomaxprocs=%d", c.Procs))
	if len(c.Corr) > 0 {
		o.Classes = append(o.Classes, "clients-share-correlation-header-values")
	}
	switch {
	case maxIn >= 32:
		o.Classes = append(o.Classes, "in-flight>=32")
	case maxIn >= 8:
		o.Classes = append(o.Classes, "in-flight>=8")
	case maxIn >= 2:
		o.Classes = append(o.Classes, "in-flight>=2")
	}
	if len(c.Reqs) > 64 {
		o.Classes = append(o.Classes, "clients>64")
	}
	for _, r := range c.Reqs {
		if r.AbandonMs > 0 {
			o.Classes = append(o.Classes, "some-clients-give-up")
			break
		}
	}
	for _, r := range c.Reqs {
		if r.AbandonMidBody {
			o.Classes = append(o.Classes, "client-leaves-while-its-response-is-streamed")
			break
		}
	}
	seen := map[string][]*vh.RawRequest{}
	for _, tok := range toks {
		seen[tok] = e.Seen(tok)
	}
	if herr := e.Stack.Health(); herr != nil {
		o.Err = fmt.Errorf("with %d concurrent clients: %v", len(c.Reqs), herr)
		for _, p := range []*vh.Proc{e.Stack.Server, e.Stack.Agent} {
			if fl := p.Flags(); len(fl) > 0 {
				o.Signature = vh.RaceSignature(fl[0])
				break
			}
		}
		mu.Lock()
		e.Close()
		delete(stacks, c.Procs)
		mu.Unlock()
		return o
	}
	nonces := map[string]int{}
	abandoned := 0
	for i, r := range c.Reqs {
		tok := toks[i]
		res := results[i]
		if msg, ok := backendErrs.Load(tok); ok {
			o.Err = fmt.Errorf("client %d: %v", i, msg)
			return o
		}
		if r.AbandonMs > 0 {
			// nothing is promised to a client that left; what the backend produced for it must simply reach nobody else
			abandoned++
			if len(seen[tok]) > 1 {
				o.Err = fmt.Errorf("client %d gave up after %dms and the backend was invoked %d times for its request", i, r.AbandonMs, len(seen[tok]))
				return o
			}
			continue
		}
		if res.err != nil {
			o.Err = fmt.Errorf("client %d (%s) got no response (backend invoked %d times for it): %v", i, tok, len(seen[tok]), res.err)
			o.TimedOut = vh.IsTimeout(res.err)
			return o
		}
		if len(seen[tok]) != 1 {
			o.Err = fmt.Errorf("client %d: backend was invoked %d times for its request", i, len(seen[tok]))
			return o
		}
		resp := res.resp
		if resp.BodyErr != nil {
			o.Err = fmt.Errorf("client %d: reading body: %v", i, resp.BodyErr)
			o.TimedOut = vh.IsTimeout(resp.BodyErr)
			return o
		}
		if resp.Status != r.Status {
			o.Err = fmt.Errorf("client %d received status %d, the backend produced %d for its request", i, resp.Status, r.Status)
			return o
		}
		if got := resp.Header.Values("X-Echo-Token"); len(got) != 1 || got[0] != tok {
			o.Err = fmt.Errorf("client %d (%s) received headers of another response: X-Echo-Token=%q", i, tok, got)
			return o
		}
		if got := resp.Header.Values("Set-Cookie"); len(got) != 1 || got[0] != "tok="+tok {
			o.Err = fmt.Errorf("client %d (%s) received Set-Cookie of another response: %q", i, tok, got)
			return o
		}
		n := resp.Header.Get("X-Nonce")
		nonces[n]++
		want := append([]byte(tok+"|"+n+"|"), vh.Payload("resp-"+tok, r.RespSize)...)
		if !bytes.Equal(resp.Body, want) {
			o.Err = fmt.Errorf("client %d (%s) received a body that is not the one produced for its request: %d bytes (hash %s, prefix %q), expected %d bytes (hash %s)",
				i, tok, len(resp.Body), vh.HashBytes(resp.Body), prefix(resp.Body), len(want), vh.HashBytes(want))
			return o
		}
		if r.Chunked {
			if got := resp.Trailer.Values("X-Trailer-Token"); len(got) != 1 || got[0] != tok {
				o.Err = fmt.Errorf("client %d (%s) received trailers of another response: %q", i, tok, got)
				return o
			}
		}
	}
	for n, k := range nonces {
		if k > 1 {
			o.Err = fmt.Errorf("one backend response (nonce %s) was delivered to %d clients", n, k)
			return o
		}
	}
	return o
}

func prefix(b []byte) string {
	if len(b) > 40 {
		b = b[:40]
	}
	return string(b)
}

func TestPropOwnResponse(t *testing.T) {
	defer cleanup()
	vh.Rapid(t, vh.Scale(120, 1500), func(rt *rapid.T) {
		c := genCase(rt)
		rec.Check(rt, &c, func() vh.Outcome { return runCase(rt, &c) })
	})
}

func TestReplay(t *testing.T) {
	defer cleanup()
	var c Case
	ok, err := vh.ReplayCase("concurrent-clients", &c)
	if err != nil {
		t.Fatalf("INFRA: %v", err)
	}
	if !ok {
		t.Skip("no replay for this part")
	}
	for i := 0; i < vh.ReplayRuns(); i++ {
		rec.Check(t, &c, func() vh.Outcome { return runCase(t, &c) })
	}
}
