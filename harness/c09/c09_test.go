// Package c09 checks property C09: identity and credential headers reaching the backend are trustworthy.
package c09

import (
	"encoding/json"
	"fmt"
	"net"
	"net/http"
	"strings"
	"sync"
	"testing"
	"time"

	"github.com/gorilla/websocket"
	"pgregory.net/rapid"
	"verif/harness/vh"
)

var rec = vh.NewRecorder("C09", "identity-headers",
	"client header sets with 0-3 copies of X-Inverting-Proxy-User-ID in arbitrary letter case, 0-2 Authorization fields in arbitrary case "+
		"and noise fields, as plain requests and as websocket-shim open requests, x proxy-asserted identities (incl. empty, spaces, non-ASCII) "+
		"x the 16 combinations of --forward-user-id, --strip-credentials, shim and session tracking, each on its own agent binary behind a "+
		"fake proxy; oracle at a recording backend (HTTP request or websocket handshake): exactly one identity value equal to the asserted "+
		"one / no Authorization field; with a flag off the client's values arrive unchanged; non-trivial = the client supplied a forged "+
		"identity or an Authorization field; distinct = SHA-256 of the canonical case"+
		" Later additions: client Connection fields that nominate the identity header, Authorization or noise fields as hop-by-hop.")

func TestMain(m *testing.M) { vh.Main(m, rec) }

type Case struct {
	Config   int              `json:"config"` // bit0 forward-user-id, bit1 strip-credentials, bit2 shim, bit3 sessions
	Asserted string           `json:"asserted"`
	Shim     bool             `json:"shim_open"`
	Fields   []vh.HeaderField `json:"fields"`
	// Path: path of a plain request ("" = /c09/<token>); the alternatives share a string prefix with the shim path
	// without lying under it, or look like shim endpoints elsewhere
	Path string `json:"path,omitempty"`
}

var (
	idNames   = []string{"X-Inverting-Proxy-User-ID", "x-inverting-proxy-user-id", "X-INVERTING-PROXY-USER-ID", "X-Inverting-Proxy-User-Id", "x-Inverting-proxy-User-iD"}
	authNames = []string{"Authorization", "authorization", "AUTHORIZATION", "AuthoriZation"}
	asserted  = []string{"alice@example.com", "bob@example.com", "", "first last@example.com", "müller@example.com", "allUsers", "a,b@example.com"}
)

func genCase(t *rapid.T) Case {
	var c Case
	c.Config = rapid.IntRange(0, 15).Draw(t, "config")
	c.Asserted = rapid.SampledFrom(asserted).Draw(t, "asserted")
	if c.Config&4 != 0 {
		c.Shim = rapid.Bool().Draw(t, "shimOpen")
	}
	if !c.Shim && rapid.IntRange(0, 2).Draw(t, "oddPath") == 0 {
		c.Path = rapid.SampledFrom([]string{"/shimx/TOK", "/shim.js", "/shim-status/TOK", "/shimapi/v1/data", "/x/shim/open", "/Shim/open", "/poll", "/data", "/open"}).Draw(t, "path")
	}
	nid := rapid.SampledFrom([]int{0, 1, 1, 2, 3}).Draw(t, "nid")
	for i := 0; i < nid; i++ {
		c.Fields = append(c.Fields, vh.HeaderField{Name: rapid.SampledFrom(idNames).Draw(t, "idname"),
			Value: rapid.SampledFrom([]string{"forged@evil.example", "admin@example.com", "alice@example.com", ""}).Draw(t, "idval")})
	}
	na := rapid.SampledFrom([]int{0, 1, 1, 2}).Draw(t, "nauth")
	for i := 0; i < na; i++ {
		c.Fields = append(c.Fields, vh.HeaderField{Name: rapid.SampledFrom(authNames).Draw(t, "authname"),
			Value: rapid.SampledFrom([]string{"Bearer secret-token", "Basic dXNlcjpwYXNz", "Negotiate abc"}).Draw(t, "authval")})
	}
	nn := rapid.IntRange(0, 3).Draw(t, "nnoise")
	for i := 0; i < nn; i++ {
		c.Fields = append(c.Fields, vh.HeaderField{Name: "X-Noise-" + rapid.StringMatching(`[a-z]{1,5}`).Draw(t, "nname"), Value: rapid.StringMatching(`[a-z0-9]{0,8}`).Draw(t, "nval")})
	}
	// a Connection field of the client, nominating field names as hop-by-hop (RFC 9110 7.6.1)
	if rapid.IntRange(0, 3).Draw(t, "connection") == 0 {
		toks := rapid.SliceOfNDistinct(rapid.SampledFrom([]string{"X-Inverting-Proxy-User-ID", "x-inverting-proxy-user-id", "Authorization", "keep-alive", "X-Noise-a", "x-unknown"}),
			1, 3, func(s string) string { return s }).Draw(t, "connectionTokens")
		c.Fields = append(c.Fields, vh.HeaderField{Name: rapid.SampledFrom([]string{"Connection", "connection"}).Draw(t, "connectionName"), Value: strings.Join(toks, ", ")})
	}
	c.Fields = rapid.Permutation(c.Fields).Draw(t, "order")
	return c
}

type seenReq struct {
	header    http.Header
	websocket bool
}

type world struct {
	ln      net.Listener
	srv     *http.Server
	mu      sync.Mutex
	rigMu   sync.Mutex
	seen    map[string]seenReq
	rigs    map[int]*rig
	ctr     int
	meta    *vh.FakeMeta
	upgrade websocket.Upgrader
}

type rig struct {
	fp    *vh.FakeProxy
	agent *vh.Proc
}

var (
	wOnce sync.Once
	w     *world
)

func getWorld() *world {
	wOnce.Do(func() {
		w = &world{seen: map[string]seenReq{}, rigs: map[int]*rig{}, meta: vh.NewFakeMeta()}
		ln, err := net.Listen("tcp", "127.0.0.1:0")
		if err != nil {
			panic(err)
		}
		w.ln = ln
		w.srv = &http.Server{Handler: http.HandlerFunc(func(rw http.ResponseWriter, r *http.Request) {
			tok := r.Header.Get(vh.TokenHeader)
			isWS := websocket.IsWebSocketUpgrade(r)
			w.mu.Lock()
			w.seen[tok] = seenReq{header: r.Header.Clone(), websocket: isWS}
			w.mu.Unlock()
			if isWS {
				c, err := w.upgrade.Upgrade(rw, r, nil)
				if err != nil {
					return
				}
				defer c.Close()
				for {
					if _, _, err := c.ReadMessage(); err != nil {
						return
					}
				}
			}
			rw.Write([]byte("ok"))
		})}
		go w.srv.Serve(ln)
	})
	return w
}

func (w *world) rigFor(t vh.TB, cfg int) *rig {
	w.rigMu.Lock()
	defer w.rigMu.Unlock()
	if r := w.rigs[cfg]; r != nil {
		return r
	}
	var args []string
	if cfg&1 != 0 {
		args = append(args, "--forward-user-id")
	}
	if cfg&2 != 0 {
		args = append(args, "--strip-credentials")
	}
	if cfg&4 != 0 {
		args = append(args, "--shim-websockets", "--shim-path=shim")
	}
	if cfg&8 != 0 {
		args = append(args, "--session-cookie-name=agentsession", "--disable-ssl-for-test")
	}
	fp := vh.NewFakeProxy()
	fp.IdleReply = 50 * time.Millisecond
	agent, err := vh.StartAgent(w.meta, fp.URL, w.ln.Addr().String(), args)
	if err != nil {
		t.Fatalf("INFRA: cannot start agent: %v", err)
	}
	q := fp.Submit("warmup", "", "GET", []byte("GET /warmup HTTP/1.1\r\nHost: x\r\n\r\n"))
	if q.Wait(30*time.Second) == nil {
		t.Fatalf("INFRA: agent (config %d) did not come up: %s", cfg, agent.Tail(10))
	}
	r := &rig{fp: fp, agent: agent}
	w.rigs[cfg] = r
	return r
}

func closeWorld() {
	if w == nil {
		return
	}
	w.rigMu.Lock()
	defer w.rigMu.Unlock()
	for k, r := range w.rigs {
		r.agent.Stop()
		r.fp.Close()
		delete(w.rigs, k)
	}
}

func runCase(t vh.TB, c *Case) vh.Outcome {
	w := getWorld()
	o := vh.Outcome{}
	var clientIDs, clientAuth []string
	nominated := map[string]bool{} // field names the client's Connection field declares hop-by-hop
	for _, f := range c.Fields {
		if strings.EqualFold(f.Name, "Connection") {
			for _, tok := range strings.Split(f.Value, ",") {
				nominated[strings.ToLower(strings.TrimSpace(tok))] = true
			}
		}
	}
	if nominated["x-inverting-proxy-user-id"] {
		o.NonTrivial = true
		o.Classes = append(o.Classes, "identity-field-nominated-in-connection")
	}
	if nominated["authorization"] {
		o.Classes = append(o.Classes, "authorization-nominated-in-connection")
	}
	for _, f := range c.Fields {
		if strings.EqualFold(f.Name, "X-Inverting-Proxy-User-ID") {
			clientIDs = append(clientIDs, f.Value)
		}
		if strings.EqualFold(f.Name, "Authorization") {
			clientAuth = append(clientAuth, f.Value)
		}
	}
	if len(clientIDs) > 0 {
		o.NonTrivial = true
		o.Classes = append(o.Classes, "forged-identity")
	}
	if len(clientIDs) > 1 {
		o.Classes = append(o.Classes, "repeated-identity")
	}
	if len(clientAuth) > 0 {
		o.NonTrivial = true
		o.Classes = append(o.Classes, "authorization")
	}
	if c.Shim {
		o.Classes = append(o.Classes, "shim-open")
	}
	o.Classes = append(o.Classes, fmt.Sprintf("config=%04b", c.Config))
	r := w.rigFor(t, c.Config)
	w.mu.Lock()
	w.ctr++
	tok := fmt.Sprintf("c09-%d", w.ctr)
	w.mu.Unlock()
	var hdr strings.Builder
	for _, f := range c.Fields {
		fmt.Fprintf(&hdr, "%s: %s\r\n", f.Name, f.Value)
	}
	var wire string
	if c.Shim {
		body := "ws://whatever.example/ws/" + tok
		wire = fmt.Sprintf("POST /shim/open HTTP/1.1\r\nHost: c09.example\r\n%s: %s\r\nX-Websocket-Shim-Version: 1\r\n%sContent-Length: %d\r\n\r\n%s", vh.TokenHeader, tok, hdr.String(), len(body), body)
	} else {
		path := "/c09/" + tok
		if c.Path != "" {
			path = strings.ReplaceAll(c.Path, "TOK", tok)
		}
		wire = fmt.Sprintf("GET %s HTTP/1.1\r\nHost: c09.example\r\n%s: %s\r\n%s\r\n", path, vh.TokenHeader, tok, hdr.String())
	}
	method := "GET"
	if c.Shim {
		method = "POST"
	}
	q := r.fp.Submit(tok, c.Asserted, method, []byte(wire))
	up := q.Wait(30 * time.Second)
	defer r.fp.Forget(tok)
	if r.agent.FlagCount() > 0 || !r.agent.Alive() {
		o.Err = fmt.Errorf("agent died or reported: %v %s", r.agent.Flags(), r.agent.Tail(5))
		return o
	}
	if up == nil {
		o.Err = fmt.Errorf("no response uploaded for the request within 30s")
		o.TimedOut = true
		return o
	}
	if up.Resp == nil || up.Resp.StatusCode != 200 {
		code := 0
		if up.Resp != nil {
			code = up.Resp.StatusCode
		}
		o.Err = fmt.Errorf("request answered with status %d (body %q)", code, string(up.Body))
		return o
	}
	if c.Shim {
		// close the shim session again
		var sm struct {
			ID string `json:"id"`
		}
		json.Unmarshal(up.Body, &sm)
		cb := fmt.Sprintf(`{"id":%q}`, sm.ID)
		ctok := tok + "-close"
		cq := r.fp.Submit(ctok, c.Asserted, "POST", []byte(fmt.Sprintf("POST /shim/close HTTP/1.1\r\nHost: c09.example\r\nContent-Length: %d\r\n\r\n%s", len(cb), cb)))
		cq.Wait(10 * time.Second)
		r.fp.Forget(ctok)
	}
	w.mu.Lock()
	s, ok := w.seen[tok]
	delete(w.seen, tok)
	w.mu.Unlock()
	if !ok {
		o.Err = fmt.Errorf("the backend never saw the request")
		return o
	}
	if c.Shim != s.websocket {
		o.Err = fmt.Errorf("shim open = %v but backend saw websocket handshake = %v", c.Shim, s.websocket)
		return o
	}
	where := "HTTP request"
	if c.Shim {
		where = "websocket handshake"
	}
	gotIDs := s.header.Values("X-Inverting-Proxy-User-Id")
	if c.Config&1 != 0 {
		blank := c.Asserted == "" && len(gotIDs) == 0 // an empty identity may arrive as an empty value or as no field at all
		if !blank && (len(gotIDs) != 1 || gotIDs[0] != c.Asserted) {
			o.Err = fmt.Errorf("with --forward-user-id the backend's %s carried X-Inverting-Proxy-User-ID values %q; expected exactly the asserted identity %q (client supplied %q)", where, gotIDs, c.Asserted, clientIDs)
			return o
		}
	} else if !c.Shim && !nominated["x-inverting-proxy-user-id"] && strings.Join(gotIDs, "\x00") != strings.Join(clientIDs, "\x00") {
		// (plain requests only: this is property C02's pass-through; nothing is promised for the handshake)
		o.Err = fmt.Errorf("without --forward-user-id the client's own X-Inverting-Proxy-User-ID values %q arrived as %q", clientIDs, gotIDs)
		return o
	}
	gotAuth := s.header.Values("Authorization")
	if c.Config&2 != 0 {
		if len(gotAuth) != 0 {
			o.Err = fmt.Errorf("with --strip-credentials the backend's %s carried Authorization values %q", where, gotAuth)
			return o
		}
	} else if !c.Shim && !nominated["authorization"] && strings.Join(gotAuth, "\x00") != strings.Join(clientAuth, "\x00") {
		o.Err = fmt.Errorf("without --strip-credentials the client's Authorization values %q arrived as %q", clientAuth, gotAuth)
		return o
	}
	return o
}

func TestPropIdentityHeaders(t *testing.T) {
	defer closeWorld()
	vh.Rapid(t, vh.Scale(640, 8000), func(rt *rapid.T) {
		c := genCase(rt)
		rec.Check(rt, &c, func() vh.Outcome { return vh.Confirm(func(int) vh.Outcome { return runCase(rt, &c) }) })
	})
}

func TestReplay(t *testing.T) {
	defer closeWorld()
	var c Case
	ok, err := vh.ReplayCase("identity-headers", &c)
	if err != nil {
		t.Fatalf("INFRA: %v", err)
	}
	if !ok {
		t.Skip("no replay for this part")
	}
	for i := 0; i < vh.ReplayRuns(); i++ {
		rec.Check(t, &c, func() vh.Outcome { return vh.Confirm(func(int) vh.Outcome { return runCase(t, &c) }) })
	}
}
