#!/usr/bin/env python3
"""Regenerates MANIFEST.json from the table below (kept in one place so it stays valid)."""
import json, os
V = os.path.dirname(os.path.abspath(__file__))

CHECKS = {}
NOT_APPLICABLE = {}

def add(pid, level, text, note, technique, design_ref):
    CHECKS[pid] = dict(
        property_id=pid,
        quick_cmd="./check %s --tier quick" % pid,
        thorough_cmd="./check %s --tier thorough" % pid,
        evidence_file="evidence/%s.json" % pid,
        replay_cmd_template="./check %s --replay {path}" % pid,
        engine="rapid-harness",
        level_claimed=dict(category=level, text=text, design_ref=design_ref),
        level_note=note,
        technique=technique,
    )

exec(open(os.path.join(V, "manifest_table.py")).read())

ALL = ["C%02d" % i for i in range(1, 21)]
na = [dict(property_id=p, reason=NOT_APPLICABLE.get(p, "check not built yet in this round; planned in DESIGN.md section 3"))
      for p in ALL if p not in CHECKS]
m = dict(
    version=1,
    setup_cmd="./setup.sh",
    hooks=dict(guard="verif", enable="no source hooks are needed: checks build /repo's binaries and packages unchanged with `go build -race`",
               baseline_off_cmd="cd /repo && go test -vet=off -count=1 ./...", source_commits=[], add_only=True),
    engines=[dict(name="rapid-harness", path="harness/", serves_properties=sorted(CHECKS),
                  kind_free_text="pgregory.net/rapid v1.3.0 properties (plus native go fuzz targets in the thorough tier) driving "
                  "-race binaries built from /repo and in-process packages; driver ./check")],
    checks=[CHECKS[p] for p in sorted(CHECKS)],
    not_applicable=na,
    notes="See DESIGN.md. exit 2 from a check = infrastructure problem / inconclusive, never a property outcome.",
)
json.dump(m, open(os.path.join(V, "MANIFEST.json"), "w"), indent=1)
print("claimed:", sorted(CHECKS), "not claimed:", [x["property_id"] for x in na])
