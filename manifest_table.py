add("C02", "exploration",
    "Generated raw HTTP/1.1 requests (grammar over method, escaped/unclean targets, queries, repeated and long header fields (names that merely resemble hop-by-hop fields included), "
    "realistic values of well-known fields and a browser navigation profile, hop-by-hop fields, Content-Length and chunked bodies up to MiBs; usually one at a time, sometimes 2-6 at once) are sent through the real server and agent binaries (a quarter of the cases through an agent with session tracking, "
    "websocket shim, banner and every other optional flag enabled, with cookie-less requests outside the shim path); a "
    "recording raw-TCP backend compares request line, Host, every end-to-end field's ordered values and the body byte for byte. "
    "Sampling, not proof: the input space is unbounded.",
    "Trusts the harness's own raw parser/serialiser and that net/http semantics of the pinned Go toolchain are the deployment's. "
    "Domain excludes repeated singleton fields, empty Accept-Encoding/User-Agent, Expect, CONNECT, absolute-form targets.",
    "property-based testing (rapid): grammar-generated requests, round-trip oracle at a recording backend", "3/C02")
add("C03", "exploration",
    "Generated backend responses (grammar over interim 1xx, final status 200-599, repeated/empty/long fields incl. Proxy-Status-like names, Set-Cookie, hop-by-hop "
    "fields, three framings, chunk sizes incl. 1-byte first chunk, declared/undeclared/comma-joined trailers, pauses between writes) "
    "are served by a scripted raw-TCP backend and by an h2c backend behind the real agent (-race) and server binaries; a raw client "
    "compares status, every end-to-end field in both directions (nothing lost, nothing invented), body and trailers. A third part repeats this through an agent with session tracking, "
    "websocket shim, banner and every other optional flag (--debug, injection, rewrite-host, ...) enabled for responses those features must leave alone (no Set-Cookie, no HTML); a fourth kills the agent in the middle of a response "
    "(the client must not get a response that ends regularly with part of the body). Bodies may be gzip-encoded and requests may lack Accept-Encoding; a field may be header and trailer at once. Race reports of "
    "the binaries count as violations. Sampling of inputs and schedules, not proof.",
    "Trusts net/http's client-side response parser used by the harness client. Date and Content-Type added by the front hop when the "
    "backend sent none, and re-framing (Content-Length/Transfer-Encoding/Trailer/Connection), are allowed.",
    "property-based testing (rapid): grammar-generated responses, two-sided round-trip oracle at a raw client + race detector", "3/C03")
add("C01", "exploration",
    "Generated sets of 2-256 concurrent clients (body sizes, backend latencies, start offsets, statuses, framings, some clients giving up after 1-200 ms, groups of clients sending identical values in request-correlation header fields such as X-Request-Id or Idempotency-Key; GOMAXPROCS of both "
    "binaries generated) run against the real server and agent binaries built with -race; each request carries a unique token that the "
    "harness backend verifies on arrival and echoes into header, cookie, body and trailer together with a per-invocation nonce. Any "
    "foreign token, duplicated nonce, missing response or race/fatal report is a violation. Interleavings are sampled (the race "
    "detector amplifies), not enumerated. Second part (proxy-replaced): the proxy process is killed and started again on the same "
    "port while 1-8 requests are at the backend and 1-12 new clients arrive; the surviving agent uploads the old responses to the new "
    "process, and every response a client receives must still carry its own token.",
    "The Go scheduler of the binaries is not controlled; concurrency is perturbed through generated latencies/offsets/GOMAXPROCS only.",
    "property-based testing (rapid): generated concurrent request sets, token/nonce correlation oracle + race detector", "3/C01")
add("C04", "exploration",
    "Agent part: generated histories of pending-list replies (repeats, permutations, overlapping subsets, full re-listing as the App "
    "Engine proxy does, 999/1000-ID boundary cases) with generated gaps and fetch/upload/backend delays are served by a fake proxy to the "
    "real agent binary; a counting backend and the upload log give invocations per ID (must be exactly 1 for every listed ID). Server "
    "part: 1-16 concurrent harness pollers against the real stand-alone proxy while clients arrive (incl. bursts of 99-250 clients queued before the first poll); in the agent part some requests have their first three response uploads ended without an answer and are listed again, and one request may stay at the backend while 1001 others come and go before it is listed again (or is named in every list reply meanwhile and listed once more after its response was uploaded), and ids may be listed again after completion; in the server part one client may pause 11-12.5 s inside its body while the pollers go on; the multiset of listed IDs must be "
    "duplicate-free and complete, and resolve to distinct clients. Histories and schedules are sampled.",
    "The 1000-entry window is taken from the property text; IDs of earlier cases still occupy the agent's LRU (they are older, so they "
    "are evicted first). app/store's own listing is exercised by C19, not here.",
    "property-based testing (rapid): generated list-reply histories against a counting model; concurrent pollers with a multiset oracle", "3/C04")
add("C05", "exploration",
    "Generated chunk-size/pause vectors (1 B .. 4 MiB, 1-50 chunks, chunked and Content-Length framing, octet-stream and text/html) x five agent configurations (default, session tracking, shim, banner, all) are produced by a scripted backend "
    "in lock-step with a fake proxy that incrementally decodes the agent's upload: chunk i+1 is only produced once every byte of chunk i "
    "was observed at the proxy. A chunk withheld for 5 s while the producer is idle and delivered only after the producer is released "
    "is a confirmed violation; the reassembled body is also compared. One case in six follows a small response whose upload the proxy turned down (411, 501, 413, 4xx, 5xx) right after the headers. One case in eight produces 2-48 such responses at the same time (every backend handler waits after its first chunk until the proxy has seen the first chunk of all of them). 'Bounded time' is checked against that generous bound only.",
    "Normal relay latency is milliseconds (two orders of magnitude below the bound). A stall without confirmation is reported as "
    "inconclusive, never as a violation.",
    "property-based testing (rapid): generated chunk vectors, lock-step progress oracle with release-and-confirm", "3/C05")
add("C06", "fault_enumeration",
    "Generated fault scripts (7 fault kinds x byte offsets around the 4096-byte replay buffer x attempt index x 'failed connection keeps "
    "draining') are played by a byte-level TCP fault server against utils.NewResponseForwarder in-process under -race, with response "
    "sizes around 4096 written in generated segments/pauses (incl. bodies sized so that the serialised response ends within a few bytes of offset 4096, framing overhead measured first) and 0-3 healthy uploads of other requests running alongside. Every acknowledged attempt must decode to exactly the reference response; "
    "at most 3 attempts; no retry after more than 4096 bytes were consumed; the handler must return. The kind x offset grid is sampled "
    "randomly (densely in the thorough tier), timings of the stale reader are not controlled.",
    "The fault server acknowledges whatever well-framed POST body arrives (like a proxy that stores before parsing). That Close() returns "
    "nil when all three attempts were answered 5xx is recorded as a class, not asserted (the property does not demand an error).",
    "property-based testing (rapid): generated fault scripts, reference-serialisation oracle on every acknowledged attempt + race detector", "3/C06")
add("C08", "exploration",
    "(a) utils.ExponentialBackoffDuration is called for retry counts over the full unsigned range (dense around 11/12, powers of two, "
    "2^32, max) and compared with the closed form min(2^n ms, 3 s) x [0.9,1.1] computed in big-integer arithmetic; a native fuzz target "
    "repeats this in the thorough tier. (b) generated fail/succeed patterns of list calls (5xx, 404, garbage, truncated body, error statuses with an empty body, 429/503 with a Retry-After of 0-2 s or a past date) are served to the real agent binary; lower "
    "bounds on the observed gaps (a sleep never returns early) and a reset probe (k>=9 failures, success, failure => short gap, "
    "confirmed on a second run) decide doubling, reset and absence of busy-looping. (c) list calls ended below HTTP (connection closed or reset without a response) "
    "for 2-3 s: the number of calls arriving in the window is bounded (<= 60; 13 fit the delays).",
    "Upper bounds on observed gaps are not asserted (load-sensitive) except in the reset probe and for 'a whole second after at most five failures in a row', where the two alternatives differ by "
    "two orders of magnitude (both confirmed on a second run). Connection-level failures may be repeated once inside Go's HTTP transport; they are therefore judged by call counts per window (c), never by single gaps.",
    "property-based testing (rapid) against a closed-form oracle; native go fuzzing; generated failure patterns with timestamp lower bounds", "3/C08")
add("C09", "exploration",
    "Generated client header sets (forged/repeated/re-cased identity fields, Authorization fields, Connection fields nominating those names as hop-by-hop, noise) are sent as plain requests (also on paths that merely resemble the shim prefix, such as /shim.js or /shimapi/v1/data) and "
    "as websocket-shim open requests through 16 agent binaries, one per combination of --forward-user-id, --strip-credentials, shim and "
    "session tracking, with generated proxy-asserted identities; a recording backend (HTTP and websocket handshake) checks the "
    "exact-one-value / absent-field predicate, and pass-through when a flag is off. Inputs are sampled; the 16 configurations are all covered.",
    "The backend is Go's HTTP server, which canonicalises field names (differently-cased copies are the same field, as for any HTTP peer).",
    "property-based testing (rapid): generated header sets x all 16 flag configurations, predicate oracle at a recording backend", "3/C09")
add("C20", "exploration",
    "Health part: generated pass/fail sequences of health checks x thresholds 1-4 (half of the scenarios with one or two checks answered only after 1.3-3.3 s, i.e. slower than the 1 s interval) are served by a scripted backend to the real agent binary; "
    "a counter model over the observed check sequence decides when the agent must exit (and that it must not exit earlier), and fake-proxy "
    "timestamps decide that no pending-list call precedes the first passing check. Shutdown part: signal x grace period x request phase (idle, listed, at the backend, uploading, list calls failing since shortly before the signal, still waiting for the first passing health check) x "
    "backend latency scenarios; one-sided time bounds on exit, a list-call cut-off rule and complete upload of the request that was at the "
    "backend or already being uploaded. Scenarios are sampled (whole-second granularity of the health interval limits the count).",
    "Time bounds are one-sided and generous (>=0.5 s slack); phases other than 'at backend' are only checked for exit timing and the "
    "list-call rule. A bound hit only once is reported as inconclusive.",
    "property-based testing (rapid): generated health-check histories against a counter model; generated signal/phase/grace scenarios with one-sided time bounds", "3/C20")
add("C07", "fault_enumeration",
    "53 fault kinds over all injection points (pending list, request fetch, backend connect/headers/body, response upload, shim "
    "endpoints incl. a real shim session fed odd message shapes and shim opens whose backend drops, garbles, half-answers or refuses the handshake or is unreachable, uploads of streamed responses turned down early (once and 70 times in a row), transport-level failures of list and fetch calls, three-digit status codes outside 100-599, conflicting lengths, unreachable backend) are (a) enumerated exhaustively at three positions of a stream of healthy requests and (b) inserted "
    "at generated positions/multiplicities into generated streams of 10-60 healthy concurrent requests, against the real agent binary "
    "(-race, shim and session tracking on) behind a fake proxy and a faulty raw backend. Invariant: agent alive, no race/fatal/panic "
    "output, every healthy request (before, during, after) uploaded with its own content, 502 when the backend is unreachable.",
    "What the faulty request's own client sees is not asserted (beyond the 502 case). Fault kinds are a finite hand-written table; "
    "timing of faults relative to healthy requests is sampled.",
    "fault injection driven by rapid-generated request/fault streams + exhaustive kind x position grid; history invariant oracle", "3/C07")
add("C10", "exploration",
    "Generated request histories (session slots, anonymous and forged ids, hosts, paths incl. trailing-slash, empty and dot segments, backend Set-Cookie operations incl. deletion, "
    "path/domain scoping, Secure/HttpOnly, exotic Set-Cookie lines a strict parser skips, 1xx interim responses in front of the final one (relayed the way httputil.ReverseProxy does), client-supplied extra cookies; cache limit, lifetime and SSL override generated) run against "
    "the sessions.Cache handler in-process and are compared step by step with one independent net/http/cookiejar per session id; every "
    "cookie value carries its session tag so a cross-session leak is visible independently of the model; attributes and expiry of the "
    "issued session cookie are checked. A concurrent part runs 8-32 goroutines over shared/different sessions under -race; another releases 2-16 requests together in a session whose id the cache does not hold (agent restarted, session evicted), each answered with a cookie of its own, and requires the next request of the session to carry them all (found the repaired defect F10e); a fifth part runs shim opens of several sessions through websockets.Proxy with the session handler around its open handler against a backend that sets cookies in handshake responses (handshake cookies must belong to the opener's session).",
    "The cookiejar differential is asserted while no more distinct session ids than the configured limit were used (eviction is allowed beyond); "
    "client cookie values are simple tokens in the generated histories; values outside Go's strict cookie grammar are covered by one fixed scenario (the repaired defect F10d). Interleavings are sampled, the race detector amplifies.",
    "stateful property-based testing (rapid): generated request/Set-Cookie histories, differential against net/http/cookiejar + tag isolation; concurrent stress under the race detector", "3/C10")
add("C11", "exploration",
    "Delivery: generated operation sequences (data posts of 1-30 messages, backend bursts of 1-40 messages beyond the 10-slot buffers, polls, "
    "a post concurrent with a poll, and in a third of the cases a final backend burst of 0-25 messages followed by a regular backend close, after which polls must deliver everything before they report the session closed, and in a quarter of the cases a neighbouring session is closed and a further one opened and used meanwhile; text = arbitrary valid UTF-8, binary = arbitrary bytes, sizes 0..1 MiB; shim protocol versions 0 and 1) run "
    "against websockets.Proxy in-process with a real gorilla/websocket backend and are compared with model queues in both directions. "
    "Injection: generated JSON/non-JSON messages x request headers with injection enabled, compared by a JSON-value oracle (byte identity "
    "for everything that is not a single JSON object with a resource.headers object, e.g. two concatenated documents or an object followed by a trailer); a native fuzz target repeats the byte-identity half in the "
    "thorough tier. Close after burst: 4 sessions at a time post 12-24 messages of up to 1 MiB to a slowly reading backend and close at once; the backend must "
    "receive all of them before it sees the connection closed. Sequences and timings are sampled.",
    "One data post and one poll outstanding at a time (as the browser shim does); polls are only issued while a message is outstanding, so "
    "the 20 s poll timeout is not exercised here. Numbers in injected messages are compared exactly (as rationals); version 0 carries text only.",
    "stateful property-based testing (rapid): generated message/batching sequences against model queues; JSON-value oracle for injection; native go fuzzing", "3/C11")
add("C12", "exploration",
    "Generated call histories over three session slots (open, data/poll/close with valid, unknown, already-closed, malformed and wrongly typed "
    "arguments and odd message shapes, backend sends, backend closes with and without immediate polling, slow-failing opens overlapping successful ones, sessions whose backend never reads and so never answers the close frame) and concurrent groups of 2-6 calls on one session released from a barrier run against "
    "websockets.Proxy in-process under -race; a state-machine model of the session table yields the allowed status set per call; every "
    "call must be answered (a panic is caught per call, an unanswered call after 15 s is a wedge); a new session id must differ from the id of every session still open; the backend must observe client closes, "
    "and polls after a backend close must deliver the queued messages and then 400. Interleavings inside a group are sampled (hundreds of "
    "groups per run), not enumerated. One fixed scenario runs in the background of every run: an open call whose backend takes the upgrade request and never answers it must be answered within 100 s (the backend stays silent for 150 s) while other opens go on.",
    "Polls are only issued when a message or a close is pending (the 20 s / 408 path is sampled once in the thorough tier). For calls racing "
    "a close, or following an asynchronous backend close, the allowed set is {200,400}; once the closing handshake of a backend close has completed a data post must be answered 400.",
    "stateful property-based testing (rapid): generated call histories and barrier-released concurrent groups against a session-table model", "3/C12")
add("C13", "exploration",
    "Generated shim open bodies (every URL syntax class of net/url: hierarchical with foreign hosts, scheme-relative, path-only, opaque, "
    "empty, userinfo, IPv6 literals, odd ports, fragments, backslashes, control bytes, plus arbitrary byte strings; with and without --rewrite-websocket-host, foreign Host headers, backend paths that redirect the handshake) run against "
    "websockets.Proxy in-process while the network dialer used by the code is replaced by a recorder that refuses every address but the "
    "backend's; confinement oracle on every recorded address, and path/query/Host of the handshake when it reaches the backend (Host = the backend, or with --rewrite-websocket-host the host the client addressed; never the host named in the body); in one case in eight the backend then ends the opened session (abort or close code 1000/1001/1011) and the client polls and posts on - still no dial to any other address. A second "
    "property sends generated requests outside the shim prefix and compares what the wrapped handler receives. A native fuzz target "
    "(seeded with one example per class) repeats the confinement oracle on raw bytes in the thorough tier.",
    "Observes dials made through websocket.DefaultDialer (what the code uses); a change that dials through another path would need the "
    "recorder to be extended. Pass-through uses clean paths only (http.ServeMux itself redirects unclean ones) and excludes the bare prefix '/shim'.",
    "property-based testing (rapid) + native go fuzzing: URL-class generators, dial-address confinement oracle", "3/C13")
add("C14", "exploration",
    "Banner: generated requests x wrapped-handler responses (some preceded by a 1xx interim response) run through banner.Proxy in-process with a neutral recording ResponseWriter and "
    "are compared with the wrapped handler's own response under a set-valued reference predicate written from the property text (altered "
    "=> GET, Accept text/html, 200, non-attachment, HTML type; already framed => body identical, only cache/frame headers differ; frame "
    "served => banner, frame src = requested URL, uncacheable, X-Frame-Options sameorigin). Shim script: generated bodies with <head> at "
    "offsets around the 1024-byte window (ASCII, multi-byte and invalid-UTF-8 filler), bodiless responses and generated read segmentations run through websockets.ShimBody (optionally followed by the "
    "banner handler); the body must be the original or the original with exactly one script block spliced after the first <head>, and "
    "must be spliced when <head> lies inside the first read. Concurrent banner part: 8-32 goroutines x 5-20 framed requests for distinct URLs through one banner.Proxy with a slow writer; "
    "each page must equal the page served for the same URL on its own. History part: 2-8 requests over URLs easily taken for one another (percent-encoding, empty query, letter case, parameter order) through one instance; every answer must equal what a fresh instance serves for the same request. Native fuzz targets repeat both oracles on raw inputs in the thorough tier.",
    "The predicate goes by the media type alone (parameters such as profile=\"text/html\" do not make a document HTML) and is liberal about letter case (the code may recognise fewer documents as HTML, never more); the frame's src is read the way a browser reads it (character references decoded, resolved against the page). The handler-level "
    "pipeline (ModifyResponse then ResponseWriter) is rebuilt by the harness the way agent.go wires it.",
    "property-based testing (rapid) + native go fuzzing: differential feature-on vs. wrapped response under a reference predicate; splice-validity oracle", "3/C14")
add("C15", "exploration",
    "Generated sets of 1-16 concurrent connections (write-size vectors around the 1024-byte websocket buffers up to 1 MiB over all byte "
    "values, read-buffer sizes 1..64 KiB, pauses, both directions at once, client-first and server-first connections) run through the real tcp-bridge-frontend and tcp-bridge-backend "
    "binaries (-race) to a harness TCP server; every stream is a deterministic function of connection id and direction and is compared by "
    "length, content and hash at the receiver. Non-bridge HTTP requests sent to the bridge backend are compared at a recording raw backend. "
    "connection.WebsocketNetConn is additionally exercised in-process (1-4 pairs at the same time; rapid + native fuzz target) for write/read reassembly and isolation between connections.",
    "Completion is detected by byte count (not by close, which is property C16). X-Forwarded-For, which the passthrough reverse proxy "
    "appends to, is not generated.",
    "property-based testing (rapid) + native go fuzzing: generated write/read segmentations, round-trip equality of byte streams", "3/C15")
add("C16", "exploration",
    "Generated histories of 1-20 bridged connections (closer = client or server, byte counts in both directions (up to 6 MiB before a clean close, with the far peer reading up to 400 ms late and pausing up to 5 ms per read), close mode clean / dirty / dirty-quiet "
    "/ both-at-once / target-down, start offsets) run through the real bridge binaries; the far peer must observe end-of-stream within 5 s of the close, "
    "for clean closes after reading exactly the bytes written before it, and the file-descriptor counts of both bridge processes "
    "(/proc/<pid>/fd) must return to their baseline once every endpoint is closed. Stalled reader: 8-32 MiB are written and closed while the other peer starts reading "
    "only 11-13 s later (at full speed or slowly; both directions in every case); every byte and then end-of-stream must arrive, and the writer must not fail. Orders and timings are sampled.",
    "A close is 'clean' when the closer has read everything sent to it and the far side is quiescent (a TCP peer closing with unread input "
    "emits RST and no relay can promise delivery then); only end-of-stream and the fd baseline are asserted for dirty/both closes. The 5 s "
    "bound is three orders of magnitude above the observed latency; a miss is re-run once before it counts.",
    "stateful property-based testing (rapid): generated open/write/close histories, end-of-stream and resource-baseline oracle", "3/C16")
add("C18", "exploration",
    "Generated registries (0-6 backends, overlapping/nested/duplicate/empty prefixes, users incl. allUsers, last-seen ages around the 5-minute "
    "window, registration histories: registered again or deleted and registered again followed by another poll) are written through app/store's real AddBackend/ListPendingRequests into a wire-level fake of datastore_v3 and looked up with "
    "LookupBackend in-process; an independent longest-prefix specification yields the set of acceptable answers (ties and dead best matches "
    "are set-valued); determinism under repetition and under permuted insertion order into a fresh datastore, and a metamorphic relation "
    "(adding a non-matching backend changes nothing) are checked as well. The thorough tier enumerates all registries of <= 3 single-prefix "
    "backends exhaustively (about 23 000 registries x 8 paths). A process-level part (answered-then-dead) runs the real App Engine proxy binary: a user's GET is answered, the backend "
    "is deleted or its last poll aged beyond the window, and the same GET and a fresh one must then be answered 404 (a live control must be served).",
    "The fake datastore implements only what the code uses (kind queries with equality/inequality filters in key order, strong consistency; the fake memcache implements set policies, expiry, compare-and-swap, Increment and FlushAll); "
    "eventual consistency and index lag of the real Datastore are outside the model. Ages are set 2 s away from the window boundary.",
    "property-based testing (rapid) against an independent set-valued specification; metamorphic and determinism relations; bounded-exhaustive enumeration in the thorough tier", "3/C18")
add("C17", "exploration",
    "Generated call histories (admin API calls by five kinds of caller, agent pending/request/response calls with every combination of "
    "OAuth identity (incl. a valid token without e-mail address), backend id and request id class, re-registration of a backend id for another agent account or end user, end-user requests by owners, other users and anonymous callers, two users on the same path prefix fetching the same cacheable long URL; in half of the histories all end-user requests share one trace id and request id header) run against the three "
    "services of the real App Engine proxy binary (-race) on a wire-level fake of datastore_v3/memcache/user, the harness playing the App "
    "Engine front end; a reference access-control model gives the status class of every call (401/403/404/400/200), and the registry, the "
    "Completed flags and the routing of stored requests are read back from the fake datastore after each step; clients must receive exactly "
    "the response an authorised agent posted under their id. Histories are sampled.",
    "The fake API implements only what the code uses; identity headers (X-AppEngine-*) and service routing are the platform's job and are "
    "set by the harness, never taken from a simulated client; /cron/* is admin-only by app configuration and not exercised with other callers.",
    "stateful property-based testing (rapid): generated call histories against a reference access-control model with store read-back", "3/C17")
add("C19", "fault_enumeration",
    "Relay: generated sets of 1-8 concurrent end-user requests (some with non-canonical query strings) over 1-3 backends (ids of 2 or of 400 bytes) run through the three services of the real App Engine "
    "proxy binary (-race) on the fake App Engine API, with harness-played agents listing, fetching and responding in generated orders; "
    "payloads are calibrated so that the serialised size lands exactly on 999999/1000000/1000001/1999999/2000000/2000001/3.5M; fetched "
    "bytes must parse back to the client's own request and each client must receive the response posted under its own id; completed ids "
    "must leave the pending list; requests may be fetched a second time before and/or after their response (a 200 must return the same bytes again). Blobs: write/read round trips through cache+store in-process at the same sizes and at 11-31 MB (ten and more parts) with memcache kept or "
    "flushed, and writes of 1-12.5 MB whose first 1-7 (or all) blob-part Puts fail (the write must return, and success implies a complete read-back). Faults: subsets of nine store operations fail for their first 1-5 matching calls during a generated phase; every call must "
    "return within 8 s (the waiting client within 45 s) with a correct result or an error status, and a re-posted response must arrive "
    "intact. The fault space (subset x count x phase x sizes) is sampled, not enumerated; the 504 path runs once in the thorough tier.",
    "The fake datastore/memcache implement only what the code uses (no 1 MiB RPC limit, no eventual consistency); every client request has "
    "a unique URL and platform request id and every posted response carries Cache-Control: the proxy's own GET response cache (F19c) and its redirect of "
    "non-canonical paths (F19d) are known findings with one fixed probe each, reported as KNOWN-FINDING. The in-process blob part also runs the periodic clean-up between write and read.",
    "property-based testing (rapid) with injected store faults: token/round-trip oracles on a wire-level fake of the App Engine API", "3/C19")
