add("C02", "exploration",
    "Generated raw HTTP/1.1 requests (grammar over method, escaped/unclean targets, queries, repeated and long header fields, "
    "hop-by-hop fields, Content-Length and chunked bodies up to MiBs) are sent through the real server and agent binaries; a "
    "recording raw-TCP backend compares request line, Host, every end-to-end field's ordered values and the body byte for byte. "
    "Sampling, not proof: the input space is unbounded.",
    "Trusts the harness's own raw parser/serialiser and that net/http semantics of the pinned Go toolchain are the deployment's. "
    "Domain excludes repeated singleton fields, empty Accept-Encoding/User-Agent, Expect, CONNECT, absolute-form targets.",
    "property-based testing (rapid): grammar-generated requests, round-trip oracle at a recording backend", "3/C02")
