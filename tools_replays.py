#!/usr/bin/env python3
"""Development aid: decides which failing cases collected from runs against seeded changes (work/seedreplays/) are fit
to become regression replays under replays/<id>/.

A candidate is kept when, replayed through `./check <id> --replay` in the driver's development mode,
  * it passes twice on a clean scratch worktree of /repo (each run within 40 s), and
  * it reports a violation on the worktree with its seeded change applied.
Nothing under /repo, /verif/evidence or /verif/replays is touched; the verdicts go to stdout.

usage: tools_replays.py [-j N] [candidate files ...]   (default: all of work/seedreplays/*.json)
"""
import glob, json, os, subprocess, sys, time
from concurrent.futures import ThreadPoolExecutor

VERIF = "/verif"
args = sys.argv[1:]
N = 4
if args[:1] == ["-j"]:
    N = int(args[1]); args = args[2:]
cands = args or sorted(glob.glob(os.path.join(VERIF, "work/seedreplays/*.json")))
base = "/tmp/verif-rp.%d" % os.getpid()
os.makedirs(base, exist_ok=True)
env = dict(os.environ, GOFLAGS="-mod=mod", GOPROXY="off", GOSUMDB="off", GOTOOLCHAIN="local")


def sh(cmd, **kw):
    return subprocess.run(cmd, shell=True, stdout=subprocess.PIPE, stderr=subprocess.STDOUT, text=True, env=env, **kw)


def replay(wt, out, chk, f):
    t0 = time.time()
    r = sh("cd %s && VERIF_REPO=%s VERIF_OUT=%s VERIF_REPLAY_RUNS=2 ./check %s --replay %s" % (VERIF, wt, out, chk, f))
    dt = time.time() - t0
    if "VIOLATION property=" in r.stdout:
        return "violation", dt
    if r.returncode == 0:
        return "ok", dt
    return "exit%d" % r.returncode, dt


def worker(k, mine):
    wt = "%s/w%d/repo" % (base, k)
    out = "%s/w%d/out" % (base, k)
    sh("git -C /repo worktree add --detach -f %s HEAD" % wt)
    res = []
    for f in mine:
        name, chk = os.path.basename(f).split("--")[:2]
        patch = "%s/seeded/%s/patch.diff" % (VERIF, name)
        v1, t1 = replay(wt, out, chk, f)
        v2, t2 = replay(wt, out, chk, f) if v1 == "ok" else ("-", 0)
        verdict = "DROP"
        seeded = "-"
        if v1 == "ok" and v2 == "ok" and max(t1, t2) < 40:
            if sh("git -C %s apply %s" % (wt, patch)).returncode == 0:
                seeded, _ = replay(wt, out, chk, f)
                sh("git -C %s checkout -- . && git -C %s clean -fdq" % (wt, wt))
                if seeded == "violation":
                    verdict = "KEEP"
        print("%s %s clean=%s/%s (%.0fs,%.0fs) seeded=%s  %s" % (verdict, os.path.basename(f), v1, v2, t1, t2, seeded, chk), flush=True)
        res.append((verdict, f))
    sh("git -C /repo worktree remove --force %s" % wt)
    return res


with ThreadPoolExecutor(N) as ex:
    futs = [ex.submit(worker, k, cands[k::N]) for k in range(N)]
    for fu in futs:
        fu.result()
sh("git -C /repo worktree prune; rm -rf %s" % base)
print("finished")
