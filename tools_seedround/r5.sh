#!/bin/bash
# usage: r5.sh <id>... : confirm, install, run own quick check against it
for id in "$@"; do
  r=$(/tmp/confirm_r5.sh $id 2>&1 | tail -1); echo "$r"
  case "$r" in *"unit=0"*"WITH=1 WITHOUT=0"*) /tmp/install_r5.py $id >/dev/null && (cd /verif && ./tools_regress.sh -j 1 $id-r${R:-5} 2>&1 | grep -v finished) ;; *) echo "$id NOT CONFIRMED";; esac
done
