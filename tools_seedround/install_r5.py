#!/usr/bin/env python3
# usage: install_r5.py <id>  -- after confirm_r5.sh <id> succeeded: copies into /verif/seeded/<id>-r5 with meta.json
import sys,os,json,shutil,subprocess
R=os.environ.get('R','5')
pid=sys.argv[1]; d=f'/tmp/seed{R}/{pid}'; dst=f'/verif/seeded/{pid}-r{R}'
props={json.loads(l)['id']:json.loads(l) for l in open('/verif/properties.jsonl')}
rd=lambda p: open(p).read().strip() if os.path.exists(p) else ''
os.makedirs(dst,exist_ok=True)
shutil.copy(d+'/patch.diff',dst+'/patch.diff')
if os.path.exists(dst+'/demo'): shutil.rmtree(dst+'/demo')
shutil.copytree(d+'/demo',dst+'/demo',ignore=shutil.ignore_patterns('bin','*.test','wt'))
tail=lambda p,n: [l for l in rd(p).splitlines() if l.strip()][-n:]
head=subprocess.run(['git','-C','/repo','rev-parse','--short','HEAD'],capture_output=True,text=True).stdout.strip()
meta={"property":f"{pid}: {props[pid]['title']}","round":int(R),"summary":rd(d+'/summary.txt'),"needs":rd(d+'/needs.txt'),
 "remarks_on_unchanged_tree":rd(d+'/remarks.txt'),
 "ran":"demo/run.sh <worktree>: exit 1 with the change, exit 0 without (sub-agent's own verification, repeated below)",
 "confirmed_by_framework_author":{"scratch_worktree":f"fresh git worktree of /repo HEAD ({head}) under /tmp/wt{R}, removed afterwards",
   "ran":["git apply patch.diff","go build ./... (ok)","go test -vet=off -count=1 ./agent/utils ./agent/sessions ./agent/websockets ./agent/banner ./agent/metrics ./utils/... ./app/... (no failures)","demo/run.sh <wt> with the change: exit 1","git apply -R patch.diff","demo/run.sh <wt> without the change: exit 0"],
   "with_change_output":tail(f'/tmp/confirm{R}_{pid}.with',8),"without_change_output":tail(f'/tmp/confirm{R}_{pid}.without',4)}}
json.dump(meta,open(dst+'/meta.json','w'),indent=1)
print('installed',dst)
