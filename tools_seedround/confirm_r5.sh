#!/bin/bash
# usage: confirm_r5.sh <id>   -- confirms /tmp/seed${R:-5}/<id>/{patch.diff,demo/run.sh} on a fresh worktree
export GOFLAGS=-mod=mod GOPROXY=off GOSUMDB=off GOTOOLCHAIN=local GAE_APPLICATION=test
id=$1; d=/tmp/seed${R:-5}/$id; wt=/tmp/wt${R:-5}/$id
mkdir -p /tmp/wt${R:-5}; git -C /repo worktree remove --force $wt >/dev/null 2>&1
git -C /repo worktree add --detach -f $wt HEAD >/dev/null 2>&1 || { echo "$id: no worktree"; exit 2; }
cd $wt
git apply $d/patch.diff || { echo "$id: PATCH DOES NOT APPLY"; exit 2; }
go build ./... || { echo "$id: BUILD FAILS"; exit 2; }
go test -vet=off -count=1 -timeout 300s ./agent/utils ./agent/sessions ./agent/websockets ./agent/banner ./agent/metrics ./utils/... ./app/... > /tmp/confirm${R:-5}_$id.unit 2>&1; u=$?
git checkout -q -- go.mod go.sum 2>/dev/null
timeout 600 $d/demo/run.sh $wt > /tmp/confirm${R:-5}_$id.with 2>&1; w=$?
git checkout -q -- go.mod go.sum 2>/dev/null
git apply -R $d/patch.diff || echo "$id: cannot reverse"
timeout 600 $d/demo/run.sh $wt > /tmp/confirm${R:-5}_$id.without 2>&1; wo=$?
git checkout -q -- . ; git clean -fdq
echo "$id unit=$u ($(grep -c '^ok' /tmp/confirm${R:-5}_$id.unit) ok, $(grep -c FAIL /tmp/confirm${R:-5}_$id.unit) FAIL) demo WITH=$w WITHOUT=$wo stray=$(git status --short | wc -l)"
cd /; git -C /repo worktree remove --force $wt >/dev/null 2>&1
