module verif/tools_mutgen

go 1.23
