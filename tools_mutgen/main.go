// Development aid: systematic first-order mutants of one Go source file (never part of a registered check).
//
// usage: go run ./tools_mutgen <repo-root> <relative-file> <out-dir>
//
// For every mutation site one file <out-dir>/<n>.json is written: {file, line, op, before, after, start, end, text}
// where [start,end) is the byte range of the original file to replace by text. Operators: relational / logical /
// arithmetic operator swaps, negated if-conditions, removed expression statements, assignments and defers,
// integer literals +1, "return nil" for error-returning early returns is left alone (too many equivalent mutants).
package main

import (
	"encoding/json"
	"fmt"
	"go/ast"
	"go/parser"
	"go/token"
	"os"
	"path/filepath"
	"strconv"
	"strings"
)

type mutant struct {
	File   string `json:"file"`
	Line   int    `json:"line"`
	Func   string `json:"func"`
	Op     string `json:"op"`
	Before string `json:"before"`
	Start  int    `json:"start"`
	End    int    `json:"end"`
	Text   string `json:"text"`
}

var swaps = map[token.Token][]string{
	token.EQL:  {"!="},
	token.NEQ:  {"=="},
	token.LSS:  {"<="},
	token.LEQ:  {"<"},
	token.GTR:  {">="},
	token.GEQ:  {">"},
	token.LAND: {"||"},
	token.LOR:  {"&&"},
	token.ADD:  {"-"},
	token.SUB:  {"+"},
}

func main() {
	root, rel, out := os.Args[1], os.Args[2], os.Args[3]
	src, err := os.ReadFile(filepath.Join(root, rel))
	if err != nil {
		panic(err)
	}
	fset := token.NewFileSet()
	f, err := parser.ParseFile(fset, rel, src, parser.ParseComments)
	if err != nil {
		panic(err)
	}
	os.MkdirAll(out, 0o755)
	var ms []mutant
	off := func(p token.Pos) int { return fset.Position(p).Offset }
	add := func(fn string, n ast.Node, op string, s, e int, text string) {
		before := string(src[s:e])
		if len(before) > 120 {
			before = before[:120] + "..."
		}
		ms = append(ms, mutant{rel, fset.Position(n.Pos()).Line, fn, op, before, s, e, text})
	}
	isLogCall := func(e ast.Expr) bool {
		c, ok := e.(*ast.CallExpr)
		if !ok {
			return false
		}
		s, ok := c.Fun.(*ast.SelectorExpr)
		if !ok {
			return false
		}
		id, ok := s.X.(*ast.Ident)
		return ok && (id.Name == "log" || id.Name == "fmt")
	}
	for _, d := range f.Decls {
		fd, ok := d.(*ast.FuncDecl)
		if !ok || fd.Body == nil {
			continue
		}
		fn := fd.Name.Name
		ast.Inspect(fd.Body, func(n ast.Node) bool {
			switch x := n.(type) {
			case *ast.BinaryExpr:
				if x.Op == token.ADD {
					// skip string concatenation in messages
					if bl, ok := x.X.(*ast.BasicLit); ok && bl.Kind == token.STRING {
						return true
					}
					if bl, ok := x.Y.(*ast.BasicLit); ok && bl.Kind == token.STRING {
						return true
					}
				}
				for _, r := range swaps[x.Op] {
					s := off(x.OpPos)
					add(fn, x, "swap "+x.Op.String()+" -> "+r, s, s+len(x.Op.String()), r)
				}
			case *ast.IfStmt:
				s, e := off(x.Cond.Pos()), off(x.Cond.End())
				add(fn, x, "negate if", s, e, "!("+string(src[s:e])+")")
			case *ast.ExprStmt:
				if isLogCall(x.X) {
					return true
				}
				s, e := off(x.Pos()), off(x.End())
				add(fn, x, "remove call", s, e, "")
			case *ast.AssignStmt:
				if x.Tok == token.ASSIGN || x.Tok == token.ADD_ASSIGN || x.Tok == token.SUB_ASSIGN {
					s, e := off(x.Pos()), off(x.End())
					add(fn, x, "remove assignment", s, e, "")
				}
			case *ast.IncDecStmt:
				s, e := off(x.Pos()), off(x.End())
				add(fn, x, "remove incdec", s, e, "")
			case *ast.DeferStmt:
				s, e := off(x.Pos()), off(x.End())
				add(fn, x, "remove defer", s, e, "")
			case *ast.BasicLit:
				if x.Kind == token.INT {
					v, err := strconv.ParseInt(x.Value, 0, 64)
					if err == nil && v >= 0 && !strings.HasPrefix(x.Value, "0x") {
						s, e := off(x.Pos()), off(x.End())
						add(fn, x, "int +1", s, e, strconv.FormatInt(v+1, 10))
						if v > 0 {
							add(fn, x, "int -1", s, e, strconv.FormatInt(v-1, 10))
						}
					}
				}
			case *ast.BranchStmt:
				if x.Tok == token.CONTINUE || x.Tok == token.BREAK {
					s, e := off(x.Pos()), off(x.End())
					add(fn, x, "remove "+x.Tok.String(), s, e, "")
				}
			}
			return true
		})
	}
	for i, m := range ms {
		b, _ := json.Marshal(m)
		os.WriteFile(filepath.Join(out, fmt.Sprintf("%04d.json", i)), b, 0o644)
	}
	fmt.Println(len(ms), "mutants for", rel)
}
