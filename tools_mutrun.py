#!/usr/bin/env python3
"""Development aid (never part of a registered check): first-order mutation sweep.

usage: tools_mutrun.py [-j N] [-n SAMPLE_PER_FILE] [-s SEED] [--files f1,f2]   (mutants from work/mutation/m/, made by tools_mutgen)

Each sampled mutant is applied to a scratch worktree of /repo (outside /repo and /verif), must compile and pass the
unit tests of its own package (otherwise it is 'not-compiling' / 'killed-by-suite'), and is then run against the quick
tier of the checks mapped to its file, in order, through the driver's development mode, until one reports a violation.
Results: work/mutation/results.jsonl (one line per mutant: status caught-by:<id> | survived | ...).
"""
import argparse, hashlib, json, os, subprocess, sys, threading, glob, shutil, time

VERIF = "/verif"
MAP = {
    "server/server.go": ["C02", "C01", "C03", "C04"],
    "agent/agent.go": ["C02", "C07", "C09", "C04", "C20", "C03", "C05"],
    "agent/utils/utils.go": ["C02", "C03", "C06", "C08", "C04", "C05", "C07"],
    "agent/websockets/connection.go": ["C11", "C12", "C13", "C09"],
    "agent/websockets/shim.go": ["C13", "C14", "C12", "C11", "C07"],
    "agent/sessions/sessions.go": ["C10", "C03"],
    "agent/banner/banner.go": ["C14"],
    "app/proxy.go": ["C17", "C19", "C18"],
    "app/store/store.go": ["C18", "C19", "C17"],
    "app/cache/cache.go": ["C19", "C17"],
    "utils/tcpbridge/connection/connection.go": ["C15", "C16"],
    "utils/tcpbridge/tcp-bridge-frontend/tcp-bridge-frontend.go": ["C15", "C16"],
    "utils/tcpbridge/tcp-bridge-backend/tcp-bridge-backend.go": ["C15", "C16"],
}
ENV = dict(os.environ, GOFLAGS="-mod=mod", GOPROXY="off", GOSUMDB="off", GOTOOLCHAIN="local", GAE_APPLICATION="test")
lock = threading.Lock()


def sh(cmd, cwd, timeout=1800, env=ENV):
    try:
        p = subprocess.run(cmd, cwd=cwd, env=env, shell=isinstance(cmd, str), stdout=subprocess.PIPE,
                           stderr=subprocess.STDOUT, text=True, timeout=timeout)
        return p.returncode, p.stdout
    except subprocess.TimeoutExpired as e:
        return 124, (e.stdout or "")


def worker(k, items, base, seed, resfile):
    wt = f"{base}/w{k}/repo"
    os.makedirs(f"{base}/w{k}", exist_ok=True)
    rc, out = sh(["git", "-C", "/repo", "worktree", "add", "--detach", "-f", wt, "HEAD"], "/")
    if rc != 0:
        print("worker", k, "no worktree", out); return
    for m in items:
        path = os.path.join(wt, m["file"])
        src = open(path, "rb").read()
        new = src[:m["start"]] + m["text"].encode() + src[m["end"]:]
        open(path, "wb").write(new)
        status, detail = None, ""
        t0 = time.time()
        rc, out = sh(["go", "build", "./..."], wt, 600)
        if rc != 0:
            status = "not-compiling"
        else:
            pkg = "./" + os.path.dirname(m["file"])
            rc, out = sh(["go", "test", "-vet=off", "-count=1", "-timeout", "300s", pkg], wt, 400)
            sh(["git", "checkout", "-q", "--", "go.mod", "go.sum"], wt)
            if rc != 0 and "agent_test" not in out and "[no test files]" not in out:
                status = "killed-by-suite"
            if m["file"] == "agent/agent.go":
                status = None  # agent_test.go cannot run here
        if status is None:
            status = "survived"
            for chk in MAP[m["file"]]:
                outdir = f"{base}/w{k}/out"
                shutil.rmtree(outdir, ignore_errors=True)
                env = dict(ENV, VERIF_SEED=str(seed), VERIF_REPO=wt, VERIF_OUT=outdir)
                rc, out = sh(["./check", chk], VERIF, 2400, env)
                if rc == 1 and "VIOLATION" in out:
                    status = "caught-by:" + chk
                    for line in out.splitlines():
                        if line.startswith("[check] violation"):
                            detail = line[:300]; break
                    break
                if rc == 2:
                    detail += f" {chk}:exit2"
        open(path, "wb").write(src)
        sh(["git", "checkout", "-q", "--", "."], wt)
        rec = dict(m, status=status, detail=detail, secs=round(time.time() - t0))
        with lock:
            with open(resfile, "a") as f:
                f.write(json.dumps(rec) + "\n")
            print(f'{m["file"]}:{m["line"]} [{m["func"]}] {m["op"]}: {m["before"][:60]!r} -> {status} {detail[:120]}', flush=True)
    sh(["git", "-C", "/repo", "worktree", "remove", "--force", wt], "/")


def main():
    ap = argparse.ArgumentParser()
    ap.add_argument("-j", type=int, default=4)
    ap.add_argument("-n", type=int, default=10)
    ap.add_argument("-s", type=int, default=1)
    ap.add_argument("--files", default="")
    ap.add_argument("--salt", default="a")
    a = ap.parse_args()
    resfile = f"{VERIF}/work/mutation/results.jsonl"
    done = set()
    if os.path.exists(resfile):
        for l in open(resfile):
            r = json.loads(l); done.add((r["file"], r["start"], r["end"], r["text"]))
    chosen = []
    for d in sorted(glob.glob(f"{VERIF}/work/mutation/m/*")):
        ms = [json.load(open(p)) for p in sorted(glob.glob(d + "/*.json"))]
        if not ms or (a.files and ms[0]["file"] not in a.files.split(",")):
            continue
        ms = [m for m in ms if "etric" not in m["before"] and (m["file"], m["start"], m["end"], m["text"]) not in done]
        ms.sort(key=lambda m: hashlib.sha256((a.salt + json.dumps(m, sort_keys=True)).encode()).hexdigest())
        chosen += ms[:a.n]
    chosen.sort(key=lambda m: hashlib.sha256(json.dumps(m, sort_keys=True).encode()).hexdigest())
    print(len(chosen), "mutants chosen", flush=True)
    base = f"/tmp/verif-mut.{os.getpid()}"
    ths = []
    for k in range(a.j):
        t = threading.Thread(target=worker, args=(k, chosen[k::a.j], base, a.s, resfile)); t.start(); ths.append(t)
    for t in ths:
        t.join()
    sh(["git", "-C", "/repo", "worktree", "prune"], "/")
    shutil.rmtree(base, ignore_errors=True)
    print("finished")


if __name__ == "__main__":
    main()
