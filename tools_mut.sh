#!/bin/sh
# usage: tools_mut.sh <property> <file-in-repo> <sed-expression>   (applies, runs quick check, reverts)
id=$1; f=$2; expr=$3
cd /repo || exit 2
if ! git diff --quiet; then echo "repo dirty"; exit 2; fi
sed -i "$expr" "$f"
if git diff --quiet; then echo "MUTATION DID NOT APPLY"; exit 2; fi
git diff | grep '^[+-]' | grep -v '^+++\|^---' | head -6
(go build ./... 2>&1 | head -5)
cd /verif && cp evidence/$id.json /tmp/.mut_ev.json 2>/dev/null; ls replays/$id 2>/dev/null | sort > /tmp/.mut_before; ./check $id 2>&1 | grep -E "^\[check\] (OK|violation|INCONCLUSIVE)|^VIOLATION|KNOWN" | cut -c1-300 | head -6
git -C /repo checkout -- .
cp /tmp/.mut_ev.json /verif/evidence/$id.json 2>/dev/null
for f in $(ls /verif/replays/$id 2>/dev/null | sort | comm -13 /tmp/.mut_before -); do rm -f /verif/replays/$id/$f; done; rmdir /verif/replays/$id 2>/dev/null; true
